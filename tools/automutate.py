#!/usr/bin/env python3
"""tools/automutate.py [--units u1,u2] [--max N] [--jobs J] [--seed S]
Contract-strength measurement (diagnostic, not a check): generates small token-level mutants INSIDE the source ranges
that are under contract (functions and slices extracted for the given units), applies each to a scratch copy of /repo,
and runs the checks of the properties that range is tagged with (fast mode: no vacuity twin, no Kani).
A mutant is
   killed     some check reports a VIOLATION
   undecided  no violation but some check exits 2 (shape change / Verus rejects the text)
   survived   every check exits 0   -> equivalent mutant, or a contract that does not pin the behaviour down
   invalid    does not compile (cargo check, all features) -- not counted
Results: seeded/AUTOMUTANTS.md (+ .json). Survivors are the work list for strengthening contracts."""
import concurrent.futures as cf, json, os, random, re, shutil, subprocess, sys, tempfile
ROOT = os.path.dirname(os.path.dirname(os.path.abspath(__file__)))
sys.path.insert(0, os.path.join(ROOT, 'vx'))
import extract, rustlex  # noqa

REPO = '/repo'
args = sys.argv[1:]
def opt(name, default):
    if name in args:
        return args[args.index(name) + 1]
    return default
UNITS = [u for u in opt('--units', ','.join(l.split()[0] for l in open(os.path.join(ROOT, 'vx', 'units', 'ORDER')) if l.strip() and not l.startswith('#'))).split(',')]
MAXN = int(opt('--max', '150'))
JOBS = int(opt('--jobs', '4'))
random.seed(int(opt('--seed', '1')))

SWAPS = {'==': ['!='], '!=': ['=='], '<': ['<=', '>'], '<=': ['<'], '>': ['>=', '<'], '>=': ['>'], '&&': ['||'], '||': ['&&'],
         '+': ['-'], '-': ['+'], 'true': ['false'], 'false': ['true']}
VARIANTS = [('Interest', ['READ', 'WRITE', 'BOTH', 'EMPTY']), ('PostAction', ['Continue', 'Reregister', 'Disable', 'Remove']),
            ('Mode', ['Level', 'Edge', 'OneShot']), ('TimeoutAction', ['Drop', 'ToInstant', 'ToDuration'])]


def ranges():
    """(file, start, end, name, props) for every non-signature-only item/slice under contract in the chosen units"""
    out = {}
    for u in UNITS:
        m = extract.build_unit(u, tempfile.mkdtemp(prefix='am-x-'))
        regs = {}
        for r in m['regions']:
            if r['kind'] == 'item' and r.get('path') and r.get('props'):
                regs.setdefault(r['path'], []).append(r)
        for it in m['items']:
            if it.get('sigonly'):
                continue
            base = it['path'].split(' :: ')[0]
            if ' / fn ' not in base and ' / fn' not in base and not base.split(' / ')[-1].startswith('fn '):
                continue
            rs = regs.get(base, [])
            props = sorted(set(p for r in rs for p in r['props']))
            if not props:
                continue
            out[(it['file'], it['start'], it['end'])] = (it['path'], props)
        shutil.rmtree(m['file'].rsplit('/', 1)[0], ignore_errors=True)
    return [(f, s, e, n, p) for (f, s, e), (n, p) in sorted(out.items())]


def mutants_for(file, start, end, name, props):
    src = open(os.path.join(REPO, file)).read()
    toks = [t for t in rustlex.lex(src) if start <= t.start and t.end <= end]
    # skip the signature of whole items: only mutate inside the first `{`
    body_from = next((t.start for t in toks if t.text == '{'), start)
    res = []
    for i, t in enumerate(toks):
        if t.start < body_from:
            continue
        prev = toks[i - 1].text if i else ''
        nxt = toks[i + 1].text if i + 1 < len(toks) else ''
        if t.text in SWAPS:
            if t.text in ('<', '>') and (prev == '::' or nxt in ('>', ',') or re.match(r'^[A-Z]', nxt or '') or re.match(r"^[A-Z']", prev or '')):
                continue    # generics
            if t.text in ('-', '+') and prev in ('(', ',', '=', '{', 'return', ''):
                continue    # unary
            if t.text == '-' and nxt == '>':
                continue
            if t.text in ('&&',) and prev in ('(', ',', '='):
                continue    # && as double reference
            for new in SWAPS[t.text]:
                res.append((t.start, t.end, new, '%s -> %s' % (t.text, new)))
        elif re.match(r'^\d+$', t.text) and prev != '.':
            v = int(t.text)
            res.append((t.start, t.end, str(v + 1), '%d -> %d' % (v, v + 1)))
            if v > 0:
                res.append((t.start, t.end, str(v - 1), '%d -> %d' % (v, v - 1)))
        else:
            for en, vs in VARIANTS:
                if t.text in vs and prev == '::' and i >= 2 and toks[i - 2].text == en:
                    for o in vs:
                        if o != t.text and not (en == 'TimeoutAction' and (o != 'Drop' or t.text != 'Drop')):
                            res.append((t.start, t.end, o, '%s::%s -> %s' % (en, t.text, o)))
        # statement deletion: `ident ( .. ) ;` or `a.b.c( .. );` call statements at the start of a statement
    # call-statement deletion
    m = rustlex.match_brackets(rustlex.lex(src)) if False else None
    for mm in re.finditer(r'\n([ \t]+)([a-zA-Z_][a-zA-Z0-9_\.]*(?:\(\))?(?:\.[a-zA-Z_][a-zA-Z0-9_]*)*\([^;{}]*\);)[ \t]*(?=\n)', src[start:end]):
        s0 = start + mm.start(2)
        if s0 < body_from:
            continue
        txt = mm.group(2)
        if txt.startswith(('trace!', 'warn!', 'debug!', 'assert', 'drop(')) or '\n' in txt and txt.count('\n') > 6:
            continue
        res.append((s0, s0 + len(txt), '', 'delete statement `%s`' % re.sub(r'\s+', ' ', txt)[:60]))
    return [dict(file=file, start=a, end=b, new=n, what=w, region=name, props=props) for a, b, n, w in res]


def run_one(mu):
    tmp = tempfile.mkdtemp(prefix='am-')
    try:
        subprocess.run('git -C /repo archive HEAD | tar -x -C %s' % tmp, shell=True, check=True)
        p = os.path.join(tmp, mu['file'])
        s = open(p).read()
        open(p, 'w').write(s[:mu['start']] + mu['new'] + s[mu['end']:])
        env0 = dict(os.environ, CARGO_NET_OFFLINE='true', CARGO_TARGET_DIR=os.path.join(ROOT, 'build', 'am-target-%d' % (os.getpid() % 1000 + hash(mu['file']) % 4)))
        c = subprocess.run('cargo check --offline -q --features "block_on executor signals stream futures-io" 2>&1 | grep -E "^error" | head -2', shell=True, cwd=tmp,
                           capture_output=True, text=True, env=env0)
        if c.stdout.strip():
            return dict(mu, result='invalid')
        worst, lines = 0, []
        for pr in mu['props']:
            env = dict(os.environ, CALLOOP_REPO=tmp, VERIF_EVIDENCE_DIR=os.path.join(tmp, 'ev'), VERIF_BUILD_DIR=os.path.join(tmp, 'b'),
                       VERIF_REPLAY_DIR=os.path.join(tmp, 'r'), VERIF_NO_SELFTEST='1', VERIF_JOBS='2', VERIF_DIAG='1')
            o = subprocess.run([os.path.join(ROOT, 'check'), pr], capture_output=True, text=True, env=env)
            if o.returncode == 1:
                worst = 1
                lines += [re.sub(r'replay=\S+ ', '', l)[:200] for l in o.stdout.splitlines() if l.startswith('VIOLATION')][:1]
                break
            if o.returncode == 2 and worst == 0:
                worst = 2
                lines += [l[:200] for l in o.stdout.splitlines() if l.startswith('UNDECIDED') and 'tier=' not in l][:1]
        return dict(mu, result={0: 'survived', 1: 'killed', 2: 'undecided'}[worst], detail=lines[:2])
    finally:
        shutil.rmtree(tmp, ignore_errors=True)


def main():
    rs = ranges()
    allm = []
    for r in rs:
        allm += mutants_for(*r)
    random.shuffle(allm)
    # spread over regions: at most 4 per region first
    per = {}
    pick = []
    for mu in allm:
        k = mu['region']
        if per.get(k, 0) < int(opt('--per-region', '4')):
            per[k] = per.get(k, 0) + 1
            pick.append(mu)
    pick = pick[:MAXN]
    print('%d ranges, %d candidate mutants, running %d' % (len(rs), len(allm), len(pick)), flush=True)
    out = []
    with cf.ThreadPoolExecutor(max_workers=JOBS) as ex:
        for r in ex.map(run_one, pick):
            out.append(r)
            print('%-9s %s:%d  %s  [%s] %s' % (r['result'], r['file'], open(os.path.join(REPO, r['file'])).read().count('\n', 0, r['start']) + 1, r['what'],
                                               ','.join(r['props']), r['region'].split(' / ')[-1][:50]), flush=True)
    cnt = {}
    for r in out:
        cnt[r['result']] = cnt.get(r['result'], 0) + 1
    tag = opt('--tag', 'AUTOMUTANTS')
    json.dump(out, open(os.path.join(ROOT, 'seeded', tag + '.json'), 'w'), indent=1)
    with open(os.path.join(ROOT, 'seeded', tag + '.md'), 'w') as fh:
        fh.write('# Automatic mutants inside the ranges under contract (tools/automutate.py; diagnostic)\n\n')
        fh.write('units: %s; %s\n\n' % (','.join(UNITS), ', '.join('%s=%d' % kv for kv in sorted(cnt.items()))))
        for res in ('survived', 'undecided', 'killed', 'invalid'):
            fh.write('## %s\n' % res)
            for r in out:
                if r['result'] == res:
                    ln = open(os.path.join(REPO, r['file'])).read().count('\n', 0, r['start']) + 1
                    fh.write('- %s:%d `%s` [%s] %s %s\n' % (r['file'], ln, r['what'], ','.join(r['props']), r['region'], ('-- ' + r['detail'][0]) if r.get('detail') else ''))
            fh.write('\n')
    print(cnt)


if __name__ == '__main__':
    main()
