#!/bin/bash
# usage: tools/try_seed.sh <patch.diff> [props...]   -- applies the patch to /repo, runs the checks, reverts.
set -u
P="$1"; shift
PROPS="${@:-C01 C02 C03 C05 C06 C07 C09 C12 C13 C14 C15 C16 C18 C20}"
cd /repo || exit 9
if ! git diff --quiet; then echo "/repo is dirty; refusing"; exit 9; fi
git apply "$P" || { echo "patch does not apply"; exit 9; }
trap 'git -C /repo checkout -- . ' EXIT
cd /verif
for p in $PROPS; do
  out=$(./check $p 2>&1); rc=$?
  echo "== $p rc=$rc"
  echo "$out" | grep -E '^(VIOLATION|UNDECIDED|KNOWN)' | cut -c1-330
done
