#!/usr/bin/env python3
"""Runs every claimed check against every seeded change (on a scratch copy of /repo via CALLOOP_REPO, removed
afterwards) and writes seeded/MATRIX.md + seeded/<id>/detection.json. Results are diagnostics, not evidence.
usage: seed_matrix.py [seed ids..] [--own] [--missing] [--jobs=N]
  --own      run only the check of the seed's own property (fast triage)
  --missing  only seeds without a detection.json
  --jobs=N   N seeds at a time (each runs its checks with up to 5 in parallel)"""
import concurrent.futures as cf
import json, os, re, shutil, subprocess, sys, tempfile
ROOT = os.path.dirname(os.path.dirname(os.path.abspath(__file__)))
sys.path.insert(0, os.path.join(ROOT, 'vx'))
import propinfo
only = [a for a in sys.argv[1:] if not a.startswith('--')]
OWN = '--own' in sys.argv
MISSING = '--missing' in sys.argv
JOBS = int(next((a.split('=')[1] for a in sys.argv if a.startswith('--jobs=')), '1'))
seeds = sorted(d for d in os.listdir(os.path.join(ROOT, 'seeded')) if os.path.isfile(os.path.join(ROOT, 'seeded', d, 'patch.diff')))
if only:
    seeds = [s for s in seeds if s in only]
if MISSING:
    seeds = [s for s in seeds if not os.path.isfile(os.path.join(ROOT, 'seeded', s, 'detection.json'))]
rows = []


def run_seed(sd):
    tmp = tempfile.mkdtemp(prefix='seedrepo-')
    try:
        subprocess.run('git -C /repo archive HEAD | tar -x -C %s' % tmp, shell=True, check=True)
        r = subprocess.run(['patch', '-p1', '-s', '-i', os.path.join(ROOT, 'seeded', sd, 'patch.diff')], cwd=tmp)
        if r.returncode != 0:
            # the patch no longer applies to /repo HEAD (the code it changes was changed since): not a result
            json.dump({'_stale': {'rc': None, 'violations': [], 'undecided': ['patch does not apply to /repo HEAD']}},
                      open(os.path.join(ROOT, 'seeded', sd, 'detection.json'), 'w'), indent=1)
            print(sd, 'STALE: patch does not apply', flush=True)
            return
        res = {}

        def one(p):
            env = dict(os.environ, CALLOOP_REPO=tmp, VERIF_EVIDENCE_DIR=os.path.join(tmp, 'evidence'), VERIF_BUILD_DIR=os.path.join(tmp, 'build'), VERIF_REPLAY_DIR=os.path.join(tmp, 'replay'), VERIF_JOBS='4', VERIF_DIAG='1', VERIF_DIAG_KANI='1', VERIF_NO_SELFTEST='1')
            o = subprocess.run([os.path.join(ROOT, 'check'), p], capture_output=True, text=True, env=env)
            viol = [l for l in o.stdout.splitlines() if l.startswith('VIOLATION')]
            und = [l for l in o.stdout.splitlines() if l.startswith('UNDECIDED') and 'tier=' not in l]
            return p, {'rc': o.returncode, 'violations': [re.sub(r'replay=\S+ ', '', v)[:300] for v in viol], 'undecided': [u[:300] for u in und]}
        with cf.ThreadPoolExecutor(max_workers=5) as ex:
            for p, r in ex.map(one, [sd.split('-')[0]] if OWN else propinfo.CLAIMED):
                res[p] = r
        if OWN:
            # keep what an earlier full run said about the other properties
            f = os.path.join(ROOT, 'seeded', sd, 'detection.json')
            if os.path.isfile(f):
                old = json.load(open(f))
                old.pop('_stale', None)
                old.update(res)
                res = old
        json.dump(res, open(os.path.join(ROOT, 'seeded', sd, 'detection.json'), 'w'), indent=1)
        rows.append((sd, res))
        print(sd, {p: r['rc'] for p, r in res.items() if r['rc'] != 0}, flush=True)
    finally:
        shutil.rmtree(tmp, ignore_errors=True)


with cf.ThreadPoolExecutor(max_workers=JOBS) as pool:
    list(pool.map(run_seed, seeds))
rows.sort()
# MATRIX.md is rebuilt from all detection.json files (whatever this run covered)
with open(os.path.join(ROOT, 'seeded', 'MATRIX.md'), 'w') as fh:
    fh.write('# Seeded changes vs checks (rc: 0 = no alarm, 1 = VIOLATION, 2 = undecided)\n\n')
    for sd in sorted(d for d in os.listdir(os.path.join(ROOT, 'seeded')) if os.path.isfile(os.path.join(ROOT, 'seeded', d, 'detection.json'))):
        res = json.load(open(os.path.join(ROOT, 'seeded', sd, 'detection.json')))
        target = sd.split('-')[0]
        fh.write('## %s (breaks %s)\n' % (sd, target))
        for p, r in res.items():
            if r['rc'] != 0:
                fh.write('- %s rc=%s %s\n' % (p, r['rc'], '; '.join(r['violations'] + r['undecided'])[:400]))
        if all(r['rc'] == 0 for r in res.values()):
            fh.write('- MISSED by every check that was run\n')
        fh.write('\n')
