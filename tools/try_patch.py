#!/usr/bin/env python3
"""tools/try_patch.py <patch.diff> <props,comma>  -- applies the patch to a scratch copy of /repo (removed afterwards)
and runs the given checks against it (CALLOOP_REPO). Diagnostics only."""
import os, re, shutil, subprocess, sys, tempfile
ROOT = os.path.dirname(os.path.dirname(os.path.abspath(__file__)))
patch, props = os.path.abspath(sys.argv[1]), sys.argv[2].split(',')
tmp = tempfile.mkdtemp(prefix='tp-')
try:
    subprocess.run('git -C /repo archive HEAD | tar -x -C %s' % tmp, shell=True, check=True)
    r = subprocess.run(['patch', '-p1', '-s', '-i', patch], cwd=tmp)
    if r.returncode != 0:
        print('patch does not apply'); sys.exit(9)
    for pr in props:
        env = dict(os.environ, CALLOOP_REPO=tmp, VERIF_EVIDENCE_DIR=os.path.join(tmp, 'ev'), VERIF_BUILD_DIR=os.path.join(tmp, 'b'),
                   VERIF_REPLAY_DIR=os.path.join(tmp, 'r'), VERIF_NO_SELFTEST='1')
        o = subprocess.run([os.path.join(ROOT, 'check'), pr], capture_output=True, text=True, env=env)
        print('== %s rc=%d' % (pr, o.returncode))
        for l in o.stdout.splitlines():
            if l.startswith(('VIOLATION', 'UNDECIDED', 'KNOWN')) and 'tier=' not in l:
                print('   ' + re.sub(r'replay=\S+ ', '', l)[:330])
finally:
    shutil.rmtree(tmp, ignore_errors=True)
