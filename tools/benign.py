#!/usr/bin/env python3
"""tools/benign.py [names...] -- applies harmless refactors (behaviour-preserving edits) one at a time to a scratch copy of
/repo and runs every claimed check against it. A VIOLATION (rc 1) on any of them is a FALSE ALARM of the machinery; rc 2
(undecided: needs re-annotation) is acceptable. Diagnostics only; results go to seeded/BENIGN.md."""
import os, re, shutil, subprocess, sys, tempfile, concurrent.futures as cf
ROOT = os.path.dirname(os.path.dirname(os.path.abspath(__file__)))
sys.path.insert(0, os.path.join(ROOT, 'vx'))
import propinfo
EDITS = {
 'rename-local-ret': ('src/loop_logic.rs', [('let ret = match result {', 'let action = match result {'), ('                match ret {\n                    PostAction::Reregister', '                match action {\n                    PostAction::Reregister')]),
 'reorder-generic-register': ('src/sources/generic.rs', [('        self.poller = Some(poll.poller().clone());\n        self.token = Some(token);\n\n        Ok(())\n    }\n\n    fn reregister', '        self.token = Some(token);\n        self.poller = Some(poll.poller().clone());\n\n        Ok(())\n    }\n\n    fn reregister')]),
 'generic-unregister-poller-guard': ('src/sources/generic.rs', [('        // Likewise: only a registration this source holds is taken out of the poller.\n        if self.token.is_none() {', '        // Likewise: only a registration this source holds is taken out of the poller.\n        if self.poller.is_none() {')]),
 'timer-reregister-guard-form': ('src/sources/timer.rs', [('        if !self.registered {\n            return Ok(());\n        }\n        self.unregister(poll)?;\n        self.register(poll, token_factory)', '        if self.registered {\n            self.unregister(poll)?;\n            self.register(poll, token_factory)?;\n        }\n        Ok(())')]),
 'extra-trace': ('src/loop_logic.rs', [('        let slot = sources.vacant_entry();\n', '        let slot = sources.vacant_entry();\n        trace!("picked a slot");\n')]),
 'comments-whitespace': ('src/token.rs', [('    pub(crate) fn same_source_as(self, other: TokenInner) -> bool {', '    // two tokens belong to the same source registration\n    pub(crate) fn same_source_as(self,   other: TokenInner) -> bool {')]),
 'cvt-mode-if-chain': ('src/sys.rs', [('    match mode {\n        Mode::Edge => PollMode::Edge,\n        Mode::Level => PollMode::Level,\n        Mode::OneShot => PollMode::Oneshot,\n    }', '    if let Mode::Edge = mode {\n        PollMode::Edge\n    } else if let Mode::Level = mode {\n        PollMode::Level\n    } else {\n        PollMode::Oneshot\n    }')]),
 'timer-unregister-if-let-take': ('src/sources/timer.rs', [('        if let Some(registration) = self.registration.take() {', '        let taken = self.registration.take();\n        if let Some(registration) = taken {')]),
 'list-get-explicit-match': ('src/list.rs', [('''    pub(crate) fn get(&self, token: TokenInner) -> crate::Result<&SourceEntry<'l, Data>> {
        let entry = self
            .sources
            .get(token.get_id())
            .ok_or(crate::Error::InvalidToken)?;
        if entry.token.same_source_as(token) {
            Ok(entry)
        } else {
            Err(crate::Error::InvalidToken)
        }
    }''', '''    pub(crate) fn get(&self, token: TokenInner) -> crate::Result<&SourceEntry<'l, Data>> {
        match self.sources.get(token.get_id()) {
            Some(entry) if entry.token.same_source_as(token) => Ok(entry),
            _ => Err(crate::Error::InvalidToken),
        }
    }''')]),
 'postaction-bitor-match-reorder': ('src/sources/mod.rs', [('        if matches!(self, x if x == rhs) {\n            self\n        } else {\n            Self::Reregister\n        }', '        if self != rhs {\n            Self::Reregister\n        } else {\n            self\n        }')]),
 'channel-early-return': ('src/sources/channel.rs', [('        if disconnected {\n            Ok(PostAction::Remove)\n        } else if clear_readiness {\n            Ok(action)\n        } else {', '        if disconnected {\n            return Ok(PostAction::Remove);\n        }\n        if clear_readiness {\n            Ok(action)\n        } else {')]),
 'ping-local-rename': ('src/sources/ping/eventfd.rs', [('                let close = (counter & INCREMENT_CLOSE) != 0;\n                let ping = (counter & (u64::MAX - 1)) != 0;\n\n                if ping {', '                let closed = (counter & INCREMENT_CLOSE) != 0;\n                let pinged = (counter & (u64::MAX - 1)) != 0;\n\n                if pinged {'), ('                if close {\n                    Ok(PostAction::Remove)', '                if closed {\n                    Ok(PostAction::Remove)')]),
 'run-loop-form': ('src/loop_logic.rs', [('        while !self.signals.stop.load(Ordering::Acquire) {\n            self.dispatch(timeout, data)?;\n            cb(data);\n        }\n        Ok(())', '        loop {\n            if self.signals.stop.load(Ordering::Acquire) {\n                break;\n            }\n            self.dispatch(timeout, data)?;\n            cb(data);\n        }\n        Ok(())')]),
 'wheel-cancel-closure-param': ('src/sources/timer.rs', [('self.heap.retain(|data| data.counter != counter);', 'self.heap.retain(|d| d.counter != counter);')]),
 'list-position-closure-param': ('src/list.rs', [('.position(|slot| slot.source.is_none());', '.position(|s| s.source.is_none());')]),
 'lifecycle-retain-form': ('src/sources/mod.rs', [('self.values.retain(|it| it != &token)', 'self.values.retain(|v| *v != token)')]),
 'remove-take-local': ('src/loop_logic.rs', [('            if let Some(source) = source.take() {\n                trace!(source = entry_token.get_id(), "Removing source");', '            let taken = source.take();\n            if let Some(source) = taken {\n                trace!(source = entry_token.get_id(), "Removing source");')]),
 'generic-token-match': ('src/sources/generic.rs', [('        if self.token != Some(token) {\n            return Ok(PostAction::Continue);\n        }', '        match self.token {\n            Some(t) if t == token => {}\n            _ => return Ok(PostAction::Continue),\n        }')]),
 'dispatch-wait-variable': ('src/loop_logic.rs', [('        let now = Instant::now();\n        {\n            let mut extra_lifecycle_sources = self', '        let now = Instant::now();\n        let mut wait = timeout;\n        {\n            let mut extra_lifecycle_sources = self'), ('                        timeout = Some(Duration::ZERO);', '                        wait = Some(Duration::ZERO);'), ('                let result = poll.poll(timeout);', '                let result = poll.poll(wait);'), ('                        if let Some(to) = timeout {', '                        if let Some(to) = wait {'), ('                                timeout = Some(to - elapsed);', '                                wait = Some(to - elapsed);')]),
 'signals-loop-deref': ('src/sources/signals.rs', [('        let mut mask = SigSet::empty();\n        for &s in signals {\n            mask.add(s.as_nix());\n        }\n\n        // Mask the signals for this thread', '        let mut mask = SigSet::empty();\n        for s in signals {\n            mask.add((*s).as_nix());\n        }\n\n        // Mask the signals for this thread')]),
 'token-wrapping-literal': ('src/token.rs', [('self.version.wrapping_add(1)', 'self.version.wrapping_add(1u16)')]),
 'idles-loop-var': ('src/loop_logic.rs', [('        for idle in idles {\n            idle.borrow_mut().dispatch(data);\n        }', '        for cb in idles {\n            cb.borrow_mut().dispatch(data);\n        }')]),
 'ping-close-early': ('src/sources/ping/eventfd.rs', [('                if close {\n                    Ok(PostAction::Remove)\n                } else {\n                    Ok(PostAction::Continue)\n                }', '                Ok(if close { PostAction::Remove } else { PostAction::Continue })')]),
 'transient-remove-arm-order': ('src/sources/transient.rs', []),
 # batch 3: edits in the functions brought under contract later (io futures, stream, executor drop, block_on, channel ctors)
 'io-readable-cond-order': ('src/io.rs', [('if readiness.readable || readiness.error {', 'if readiness.error || readiness.readable {')]),
 'io-poll-read-let': ('src/io.rs', [('        match (*self).get_mut().read(buf) {\n            Err(err) if err.kind() == std::io::ErrorKind::WouldBlock => {}\n            res => return TaskPoll::Ready(res),\n        }', '        let outcome = (*self).get_mut().read(buf);\n        match outcome {\n            Err(err) if err.kind() == std::io::ErrorKind::WouldBlock => {}\n            res => return TaskPoll::Ready(res),\n        }')]),
 'io-register-waker-order': ('src/io.rs', [('            disp.interest = interest;\n            disp.waker = Some(waker);', '            disp.waker = Some(waker);\n            disp.interest = interest;')]),
 'stream-match-form': ('src/sources/stream.rs', [('                    if let Some(evt) = evt {\n                        callback(Some(evt), &mut ());\n                    } else {\n                        callback(None, &mut ());\n                        end_of_stream = true;\n                        break;\n                    }', '                    match evt {\n                        Some(evt) => callback(Some(evt), &mut ()),\n                        None => {\n                            callback(None, &mut ());\n                            end_of_stream = true;\n                            break;\n                        }\n                    }')]),
 'blockon-swap-local': ('src/loop_logic.rs', [('            if self.signals.future_ready.swap(false, Ordering::AcqRel) {', '            let ready = self.signals.future_ready.swap(false, Ordering::AcqRel);\n            if ready {')]),
 'channel-ctor-field-order': ('src/sources/channel.rs', [('        Channel {\n            receiver,\n            ping,\n            source,\n            capacity: usize::MAX,\n        },', '        Channel {\n            source,\n            ping,\n            receiver,\n            capacity: usize::MAX,\n        },')]),
 'schedule-index-typed': ('src/sources/futures.rs', [('let index = active_tasks.vacant_key();', 'let index: usize = active_tasks.vacant_key();')]),
 'timeout-future-flip': ('src/sources/timer.rs', [('if Instant::now() >= deadline {\n                    return std::task::Poll::Ready(());', 'if deadline <= Instant::now() {\n                    return std::task::Poll::Ready(());')]),
 'executor-drop-comment-move': ('src/sources/futures.rs', [('        // Drain the queue in order to drop all of the runnables.\n        while self.state.incoming.try_recv().is_ok() {}', '        // Finally drain the queue: every runnable (and its future) is dropped here.\n        while self.state.incoming.try_recv().is_ok() {}')]),
 'dispatch-let-else': ('src/loop_logic.rs', [('            if let Some(disp) = opt_disp {\n                trace!(source = reg_token.get_id(), "Dispatching events for source");', '            if let Some(disp) = opt_disp.as_ref() {\n                trace!(source = reg_token.get_id(), "Dispatching events for source");')]),
 'bitor-assign-eq': ('src/sources/mod.rs', [('        if *self != rhs {\n            *self = Self::Reregister;\n        }', '        if *self == rhs {\n            return;\n        }\n        *self = Self::Reregister;')]),
 'timer-wheel-insert-local': ('src/sources/timer.rs', []),
 'event-iterator-find-map': ('src/loop_logic.rs', [("""        for next in self.inner.by_ref() {
            if next
                .token
                .inner
                .same_source_as(self.registration_token.inner)
            {
                return Some((next.readiness, next.token));
            }
        }
        None""", """        let reg = self.registration_token.inner;
        self.inner
            .by_ref()
            .find(|event| event.token.inner.same_source_as(reg))
            .map(|event| (event.readiness, event.token))""")]),
 'dispatch-idles-drain': ('src/loop_logic.rs', [('        let idles = std::mem::take(&mut *self.handle.inner.idles.borrow_mut());\n        for idle in idles {', '        let mut idles = std::mem::take(&mut *self.handle.inner.idles.borrow_mut());\n        for idle in idles.drain(..) {')]),
 'try-new-field-order': ('src/loop_logic.rs', [('                poll: RefCell::new(poll),\n                sources: RefCell::new(SourceList::new()),\n                idles: RefCell::new(Vec::new()),', '                sources: RefCell::new(SourceList::new()),\n                idles: RefCell::new(Vec::new()),\n                poll: RefCell::new(poll),')]),
 'insert-source-let': ('src/loop_logic.rs', [('        self.register_dispatcher(dispatcher.clone())\n            .map_err(|error| InsertError {', '        let registered = self.register_dispatcher(dispatcher.clone());\n        registered.map_err(|error| InsertError {')]),
 'transient-remove-match': ('src/sources/transient.rs', [("""        if let TransientSourceState::Register(_) = self.state {
            // A source waiting for its first registration was never registered: there is
            // nothing to unregister, it can go at once.
            self.state = TransientSourceState::None;
            return;
        }
        self.state.replace_state(TransientSourceState::Remove);""", """        match self.state {
            // A source waiting for its first registration was never registered: there is
            // nothing to unregister, it can go at once.
            TransientSourceState::Register(_) => self.state = TransientSourceState::None,
            _ => self.state.replace_state(TransientSourceState::Remove),
        }""")]),
 'transient-reregister-match-result': ('src/sources/transient.rs', [("""                if let Err(e) = new.register(poll, token_factory) {
                    // Drops the old source; the new one is still waiting for its first registration.
                    self.state.replace_state(TransientSourceState::Register);
                    return Err(e);
                }
                self.state.replace_state(TransientSourceState::Keep);""", """                match new.register(poll, token_factory) {
                    Ok(()) => self.state.replace_state(TransientSourceState::Keep),
                    Err(e) => {
                        // Drops the old source; the new one is still waiting for its first registration.
                        self.state.replace_state(TransientSourceState::Register);
                        return Err(e);
                    }
                }""")]),
 'get-signal-local': ('src/loop_logic.rs', [('        LoopSignal {\n            signal: self.signals.clone(),\n            notifier: self.handle.inner.poll.borrow().notifier(),\n        }', '        let notifier = self.handle.inner.poll.borrow().notifier();\n        LoopSignal {\n            signal: self.signals.clone(),\n            notifier,\n        }')]),
 'before-sleep-flag-accumulated': ('src/loop_logic.rs', [("""            let sources = &self.handle.inner.sources.borrow();
            for source in &mut *extra_lifecycle_sources.values {
                if let Ok(SourceEntry {
                    source: Some(disp), ..
                }) = sources.get(source.inner)
                {
                    if let Some((readiness, token)) = disp.before_sleep()? {
                        // Wake up instantly after polling if we recieved an event
                        timeout = Some(Duration::ZERO);
                        self.synthetic_events.push(PollEvent { readiness, token });
                    }
                } else {
                    unreachable!()
                }
            }
        }""", """            let sources = &self.handle.inner.sources.borrow();
            let mut has_synthetic_event = false;
            for source in &mut *extra_lifecycle_sources.values {
                if let Ok(SourceEntry {
                    source: Some(disp), ..
                }) = sources.get(source.inner)
                {
                    let synthetic_event = disp.before_sleep()?;
                    if synthetic_event.is_some() {
                        has_synthetic_event = true;
                    }
                    if let Some((readiness, token)) = synthetic_event {
                        self.synthetic_events.push(PollEvent { readiness, token });
                    }
                } else {
                    unreachable!()
                }
            }
            if has_synthetic_event {
                // Wake up instantly after polling if we recieved an event
                timeout = Some(Duration::ZERO);
            }
        }""")]),
}

only = sys.argv[1:]
rows = []
for name, (rel, edits) in EDITS.items():
    if not edits or (only and name not in only):
        continue
    tmp = tempfile.mkdtemp(prefix='benign-')
    try:
        subprocess.run('git -C /repo archive HEAD | tar -x -C %s' % tmp, shell=True, check=True)
        p = os.path.join(tmp, rel)
        s = open(p).read()
        ok = True
        for old, new in edits:
            if s.count(old) != 1:
                print(name, 'EDIT SITE NOT FOUND/AMBIGUOUS:', old[:50].replace('\n', ' ')); ok = False; break
            s = s.replace(old, new)
        if not ok:
            continue
        open(p, 'w').write(s)
        c = subprocess.run('cargo check --offline -q 2>&1 | tail -3', shell=True, cwd=tmp, capture_output=True, text=True, env=dict(os.environ, CARGO_NET_OFFLINE='true', CARGO_TARGET_DIR=os.path.join(tmp, 'tgt')))
        compiles = 'error' not in c.stdout
        def one(pr):
            env = dict(os.environ, CALLOOP_REPO=tmp, VERIF_EVIDENCE_DIR=os.path.join(tmp, 'ev'), VERIF_BUILD_DIR=os.path.join(tmp, 'b'), VERIF_REPLAY_DIR=os.path.join(tmp, 'r'), VERIF_NO_SELFTEST='1', VERIF_JOBS='4', VERIF_DIAG='1', VERIF_DIAG_KANI='1')
            o = subprocess.run([os.path.join(ROOT, 'check'), pr], capture_output=True, text=True, env=env)
            v = [re.sub(r'replay=\S+ ', '', l)[:260] for l in o.stdout.splitlines() if l.startswith('VIOLATION')]
            u = [l[:200] for l in o.stdout.splitlines() if l.startswith('UNDECIDED') and 'tier=' not in l]
            return pr, o.returncode, v, u
        with cf.ThreadPoolExecutor(max_workers=5) as ex:
            res = list(ex.map(one, propinfo.CLAIMED))
        bad = [(p_, v) for p_, rc, v, u in res if rc == 1]
        und = [(p_, u) for p_, rc, v, u in res if rc == 2]
        rows.append((name, compiles, bad, und))
        print(name, 'compiles=%s' % compiles, 'FALSE-ALARMS=%s' % [b[0] for b in bad], 'undecided=%s' % [x[0] for x in und], flush=True)
        for p_, v in bad:
            for l in v[:2]:
                print('    ', p_, l, flush=True)
    finally:
        shutil.rmtree(tmp, ignore_errors=True)
with open(os.path.join(ROOT, 'seeded', 'BENIGN.md' if not only else 'BENIGN-partial.md'), 'w') as fh:
    fh.write('# Harmless refactors vs checks (a VIOLATION here is a false alarm; undecided = needs re-annotation)\n\n')
    for name, compiles, bad, und in rows:
        fh.write('- %s: compiles=%s false_alarms=%s undecided=%s\n' % (name, compiles, [b[0] for b in bad], [(x[0], (x[1] or [''])[0][:120]) for x in und]))
        for p_, v in bad:
            for l in v[:2]:
                fh.write('    - %s %s\n' % (p_, l))
