import json, os, shutil, sys
ROOT='/verif'
HEAD=os.popen('git -C /repo rev-parse --short HEAD').read().strip()
META = json.load(open(sys.argv[1]))
for sid, m in META.items():
    P = sid.split('-')[0]; wid = m['wid']; n = m['n']
    d = os.path.join(ROOT, 'seeded', sid)
    os.makedirs(os.path.join(d, 'demo', 'tests'), exist_ok=True)
    shutil.copy('/tmp/wt/%s-seed%d.diff' % (wid, n), os.path.join(d, 'patch.diff'))
    shutil.copy('/tmp/wt/%s-demo/tests/seed%d.rs' % (wid, n), os.path.join(d, 'demo', 'tests', 'seed%d.rs' % n))
    cm = '/tmp/wt/%s-demo/tests/common' % wid
    if os.path.isdir(cm):
        shutil.copytree(cm, os.path.join(d, 'demo', 'tests', 'common'), dirs_exist_ok=True)
    ct = open('/tmp/wt/%s-demo/Cargo.toml' % wid).read().replace('/tmp/wt/%s' % wid, '/path/to/calloop-worktree')
    open(os.path.join(d, 'demo', 'Cargo.toml'), 'w').write(ct)
    rep = '%s-seeds-round%s.md' % (P, m['round'])
    shutil.copy('/tmp/wt/%s-seeds.md' % wid, os.path.join(ROOT, 'seeded', rep))
    json.dump({'id': sid, 'property': P, 'where': m['where'], 'change': m['change'], 'needs_to_manifest': m['needs'],
               'origin': 'independent sub-agent given only the property text and a scratch worktree (round %s, agent seed %d)' % (m['round'], n),
               'confirmed': 'tools/confirm_seeds.sh on /repo HEAD %s: calloop suite (cargo test --workspace --no-fail-fast --offline, 55 tests + doctests) passes with the change; demo test fails with the change and passes on the clean tree' % HEAD,
               'demo': 'demo/tests/seed%d.rs (cargo test --offline --test seed%d; set the calloop path in demo/Cargo.toml)' % (n, n),
               'report': '../' + rep}, open(os.path.join(d, 'meta.json'), 'w'), indent=1)
    print('collected', sid)
