#!/usr/bin/env python3
"""tools/sec9.py -- regenerates DESIGN.md section 9 (between the markers <!--SEC9-BEGIN--> / <!--SEC9-END-->) from
seeded/<id>/meta.json + seeded/<id>/detection.json (written by tools/seed_matrix.py)."""
import glob, json, os, re
ROOT = os.path.dirname(os.path.dirname(os.path.abspath(__file__)))
rows = []
for d in sorted(glob.glob(os.path.join(ROOT, 'seeded', '*', 'meta.json')), key=lambda p: (os.path.basename(os.path.dirname(p)).split('-seed')[0], int(os.path.basename(os.path.dirname(p)).split('-seed')[1]))):
    sid = os.path.basename(os.path.dirname(d))
    meta = json.load(open(d))
    detp = os.path.join(os.path.dirname(d), 'detection.json')
    det = json.load(open(detp)) if os.path.exists(detp) else {}
    prop = meta.get('property') or sid.split('-')[0]
    own = det.get(prop, {})
    rc = own.get('rc')
    others_v = sorted(p for p, r in det.items() if p != prop and r.get('rc') == 1)
    if rc == 1:
        m = re.search(r'obligation="([^"]+)"', (own.get('violations') or [''])[0])
        res = 'detected: ' + (m.group(1) if m else '?')
    elif rc == 2:
        u = (own.get('undecided') or [''])[0]
        u = re.sub(r'^UNDECIDED property=\S+ ', '', u)
        res = 'undecided: ' + u[:110]
    elif rc == 0:
        res = 'MISSED by %s' % prop + (' (detected by %s)' % ', '.join(others_v) if others_v else '')
    elif '_stale' in det:
        res = 'not run (patch does not apply to HEAD any more)'
    else:
        res = 'not run'
    change = (meta.get('change') or meta.get('description') or meta.get('title') or '').replace('|', '/')
    where = (meta.get('where') or '').replace('|', '/')
    rows.append((sid, prop, where, change, res, others_v if rc == 1 else []))
n = len(rows)
det_n = sum(1 for r in rows if r[4].startswith('detected'))
und_n = sum(1 for r in rows if r[4].startswith('undecided'))
mis_any = [r for r in rows if r[4].startswith('MISSED') and 'detected by' in r[4]]
mis_n = sum(1 for r in rows if r[4].startswith('MISSED'))
out = []
out.append('%d seeded changes (each: breaks the named property, compiles, passes the 55-test suite; confirmed in a scratch worktree: demo test fails with the change and passes without). '
           'Each seed is applied to a scratch copy of /repo and EVERY claimed check is run against it (`tools/seed_matrix.py`; per-seed results in seeded/<id>/detection.json, all lines in seeded/MATRIX.md). '
           'Check of the seed\'s own property: **%d detected** (VIOLATION on an obligation that is discharged on the unchanged tree), **%d undecided** (exit 2: the change restructures the code under an overlay -- lost anchor, changed loop/closure shape, a construct Verus rejects -- so a failed proof would mean nothing; only the obligations of the restructured item become undecided), **%d missed** (exit 0), of which %d are flagged by the check of another property.\n'
           % (n, det_n, und_n, mis_n, len(mis_any)))
out.append('| seed | where | change | result of the check of its own property | also flagged by |')
out.append('|------|-------|--------|------------------------------------------|-----------------|')
for sid, prop, where, change, res, others in rows:
    out.append('| %s | %s | %s | %s | %s |' % (sid, where[:70], change[:150], res.replace('|', '/'), ', '.join(others)))
missed = [r for r in rows if r[4].startswith('MISSED')]
if missed:
    out.append('')
    out.append('Missed seeds and why (what a contract in this family would need):')
    WHY = json.load(open(os.path.join(ROOT, 'seeded', 'missed-why.json'))) if os.path.exists(os.path.join(ROOT, 'seeded', 'missed-why.json')) else {}
    for r in missed:
        out.append('* **%s** -- %s' % (r[0], WHY.get(r[0], 'not analysed')))
ret = sorted(d for d in os.listdir(os.path.join(ROOT, 'seeded', 'retired')) if d.startswith('C')) if os.path.isdir(os.path.join(ROOT, 'seeded', 'retired')) else []
if ret:
    out.append('')
    out.append('Retired seeds (not counted above; kept under seeded/retired/ with the reason in its README.md): %s -- their demonstrations stopped failing when a genuine defect they relied on was repaired in /repo, so they no longer meet "breaks the property, confirmed by a failing demonstration".' % ', '.join(ret))
text = '\n'.join(out) + '\n'
p = os.path.join(ROOT, 'DESIGN.md')
s = open(p).read()
if '<!--SEC9-BEGIN-->' not in s:
    s = s.replace('@@SEC9TABLE@@', '<!--SEC9-BEGIN-->\n<!--SEC9-END-->')
s = re.sub(r'<!--SEC9-BEGIN-->.*?<!--SEC9-END-->', lambda m: '<!--SEC9-BEGIN-->\n' + text + '<!--SEC9-END-->', s, flags=re.S)
open(p, 'w').write(s)
print('section 9: %d seeds, %d detected, %d undecided, %d missed' % (n, det_n, und_n, mis_n))
