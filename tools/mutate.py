#!/usr/bin/env python3
"""tools/mutate.py <props,comma> <file rel to repo> <old> <new> [count]
Applies a textual edit to a scratch copy of /repo (under $TMPDIR, removed afterwards) and runs the given checks
against it. Diagnostics only (used to try deliberate property-breaking edits and harmless refactors)."""
import os, shutil, subprocess, sys, tempfile
ROOT = os.path.dirname(os.path.dirname(os.path.abspath(__file__)))
props, rel, old, new = sys.argv[1].split(','), sys.argv[2], sys.argv[3], sys.argv[4]
cnt = int(sys.argv[5]) if len(sys.argv) > 5 else 1
tmp = tempfile.mkdtemp(prefix='mut-')
try:
    subprocess.run('git -C /repo archive HEAD | tar -x -C %s' % tmp, shell=True, check=True)
    p = os.path.join(tmp, rel)
    s = open(p).read()
    if s.count(old) != cnt:
        print('edit site count = %d (expected %d)' % (s.count(old), cnt)); sys.exit(9)
    open(p, 'w').write(s.replace(old, new))
    for pr in props:
        env = dict(os.environ, CALLOOP_REPO=tmp, VERIF_EVIDENCE_DIR=os.path.join(tmp, 'ev'), VERIF_BUILD_DIR=os.path.join(tmp, 'b'),
                   VERIF_REPLAY_DIR=os.path.join(tmp, 'r'), VERIF_NO_SELFTEST='1')
        o = subprocess.run([os.path.join(ROOT, 'check'), pr], capture_output=True, text=True, env=env)
        print('== %s rc=%d' % (pr, o.returncode))
        for l in o.stdout.splitlines():
            if l.startswith(('VIOLATION', 'UNDECIDED', 'KNOWN')) and 'tier=' not in l:
                import re
                print('   ' + re.sub(r'replay=\S+ ', '', l)[:400])
finally:
    shutil.rmtree(tmp, ignore_errors=True)
