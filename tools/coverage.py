#!/usr/bin/env python3
"""Lists every non-test `fn` of /repo/src with what the evidence says about it: whole item under contract (B),
sliced (S ranges inside it), or not covered. Diagnostic; reads evidence/*.json (fidelity_gate records)."""
import json, glob, os, re, sys
ROOT = os.path.dirname(os.path.dirname(os.path.abspath(__file__)))
REPO = os.environ.get('CALLOOP_REPO', '/repo')
cov = {}   # file -> list of (line, kind, item)
for f in glob.glob(os.path.join(ROOT, 'evidence', 'C*.json')):
    e = json.load(open(f))
    for g in e['coverage']['fidelity_gate']:
        cov.setdefault(g['file'], set()).add((g['line'], g['kind'], g['item'], g.get('tokens', 0)))
rows = []
for path in sorted(glob.glob(os.path.join(REPO, 'src', '**', '*.rs'), recursive=True)):
    rel = os.path.relpath(path, REPO)
    lines = open(path).read().split('\n')
    # cut at the test module
    end = len(lines)
    for i, l in enumerate(lines):
        if re.match(r'^\s*#\[cfg\(test\)\]', l) and i + 1 < len(lines) and re.match(r'^\s*mod tests', lines[i + 1]):
            end = i
            break
    i = 0
    ctx = []
    while i < end:
        l = lines[i]
        m = re.match(r'^(\s*)(pub(\([a-z]+\))?\s+)?(const\s+)?(unsafe\s+)?(async\s+)?fn\s+(\w+)', l)
        if m and not l.strip().startswith('//'):
            # find the end of the fn by brace counting (good enough for a diagnostic)
            depth = 0; j = i; started = False; decl_only = False
            while j < end:
                s = re.sub(r'//.*', '', lines[j])
                s = re.sub(r'"(\\.|[^"\\])*"', '""', s)
                s = re.sub(r"'(\\.|[^'\\])'", "''", s)
                for ch in s:
                    if ch == '{': depth += 1; started = True
                    elif ch == '}': depth -= 1
                    elif ch == ';' and not started: decl_only = True
                if decl_only or (started and depth == 0): break
                j += 1
            lo, hi = i + 1, j + 1
            hits = [(ln, k, it) for (ln, k, it, n) in cov.get(rel, ()) if lo <= ln <= hi and k in ('B', 'S')]
            whole = any(k == 'B' and ln == lo for ln, k, it in hits)
            # attributes/doc may precede: B items record the line of the item start incl. attrs; accept a window
            if not whole:
                whole = any(k == 'B' and lo - 12 <= ln <= lo and it.endswith('fn ' + m.group(7)) for (ln, k, it, n) in cov.get(rel, ()))
            sl = sorted(set(it for ln, k, it in hits if k == 'S'))
            status = 'whole' if whole else ('slices:%d' % len(sl) if sl else ('decl' if decl_only else 'NONE'))
            rows.append((rel, lo, hi - lo + 1, m.group(7), status, sl))
            i = i + 1   # nested fns are listed too
            continue
        i += 1
none = [r for r in rows if r[4] == 'NONE']
for r in rows:
    if '--all' in sys.argv or r[4] == 'NONE' or r[4].startswith('slices'):
        print('%-34s %5d %4d  %-28s %s' % (r[0], r[1], r[2], r[3], r[4]))
print('total fns %d, whole %d, sliced %d, none %d (lines uncovered %d)' % (len(rows), sum(r[4] == 'whole' for r in rows), sum(r[4].startswith('slices') for r in rows), len(none), sum(r[2] for r in none)))
