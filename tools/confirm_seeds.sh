#!/bin/bash
# confirm seeds produced by sub-agents: suite passes with the change, demo fails with it and passes without it
# usage: tools/confirm_seeds.sh C05 1 2   (property, seed numbers)
P=$1; shift
WT=/tmp/wt/$P; DEMO=/tmp/wt/$P-demo
export CARGO_NET_OFFLINE=true
for i in "$@"; do
  D=/tmp/wt/$P-seed$i.diff
  cd $WT && git checkout -q -- . && git apply $D || { echo "$P seed$i: APPLY-FAIL"; continue; }
  if cargo test --workspace --no-fail-fast --offline > /tmp/wt/$P-confirm$i-suite.log 2>&1; then S=pass; else S=FAIL; fi
  cd $DEMO; if cargo test --offline --test seed$i $EXTRA > /tmp/wt/$P-confirm$i-demo-with.log 2>&1; then W=pass; else W=fail; fi
  cd $WT && git checkout -q -- .
  cd $DEMO; if cargo test --offline --test seed$i $EXTRA > /tmp/wt/$P-confirm$i-demo-without.log 2>&1; then O=pass; else O=fail; fi
  echo "$P seed$i: suite_with_change=$S demo_with_change=$W demo_without_change=$O"
done
