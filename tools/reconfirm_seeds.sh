#!/bin/bash
# tools/reconfirm_seeds.sh [ids..]: re-confirms seeds against the CURRENT /repo HEAD in a scratch worktree (/tmp/rc):
# calloop suite passes with the patch, the seed's demo fails with the patch and passes without. Writes seeded/RECONFIRM.md.
export CARGO_NET_OFFLINE=true
ROOT=$(cd "$(dirname "$0")/.." && pwd)
WT=/tmp/rc; DEMO=/tmp/rc-demo
git -C /repo worktree remove --force $WT 2>/dev/null; rm -rf $WT $DEMO
git -C /repo worktree add --detach $WT HEAD -q || exit 2
HEAD=$(git -C /repo log --format=%h -1)
IDS="$@"; [ -z "$IDS" ] && IDS=$(ls $ROOT/seeded | grep -E '^C[0-9]+-seed[0-9]+$' | sort -V)
OUT=$ROOT/seeded/RECONFIRM.md
[ -z "$1" ] && echo "# Seeds re-confirmed against /repo HEAD $HEAD (suite with the change / demo with / demo without)" > $OUT
for id in $IDS; do
  d=$ROOT/seeded/$id
  [ -f $d/patch.diff ] || continue
  cd $WT && git checkout -q -- . && git clean -fdq -e target
  if ! git apply $d/patch.diff 2>/dev/null; then echo "- $id: STALE (patch does not apply)" | tee -a $OUT; continue; fi
  if cargo test --workspace --no-fail-fast --offline > /tmp/rc-suite.log 2>&1; then S=pass; else S=FAIL; fi
  rm -rf $DEMO/tests $DEMO/src $DEMO/Cargo.toml; mkdir -p $DEMO; cp -r $d/demo/. $DEMO/
  sed -i "s#/path/to/calloop-worktree#$WT#g" $DEMO/Cargo.toml
  T=$(ls $DEMO/tests | grep -E '^seed[0-9]+\.rs$' | head -1 | sed 's/\.rs$//')
  cd $DEMO; if timeout 600 cargo test --offline --test $T > /tmp/rc-with.log 2>&1; then W=pass; else W=fail; fi
  cd $WT && git checkout -q -- . && git clean -fdq -e target
  cd $DEMO; if timeout 600 cargo test --offline --test $T > /tmp/rc-without.log 2>&1; then O=pass; else O=fail; fi
  V=ok; [ "$S" = pass ] && [ "$W" = fail ] && [ "$O" = pass ] || V=NOT-CONFIRMED
  echo "- $id: suite_with_change=$S demo_with_change=$W demo_without_change=$O => $V" | tee -a $OUT
done
git -C /repo worktree remove --force $WT; rm -rf $DEMO
