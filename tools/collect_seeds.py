#!/usr/bin/env python3
"""tools/collect_seeds.py  -- copies confirmed sub-agent seeds from /tmp/wt into seeded/<P>-seed<N>/ (patch.diff, demo/,
meta.json) and back-fills meta.json for seeds collected earlier. META below is hand-written from the sub-agents'
reports; `confirmed` is what tools/confirm_seeds.sh measured in this sandbox."""
import json, os, re, shutil, sys
ROOT = os.path.dirname(os.path.dirname(os.path.abspath(__file__)))
META = {
 # round 2 (this session)
 'C02-seed1': ('src/sys.rs Poll::poll', 'expired timers are appended to the batch only when the poller returned no fd event', 'a timer already expired in the same poll as at least one fd event (ping/channel/fd); with a level-triggered fd that stays ready the timer starves'),
 'C02-seed2': ('src/sources/channel.rs Channel::process_events', 'batch bound min(capacity+1,1024) becomes min(capacity,1024)', 'boundary value sync_channel(0): bound 0, the receive loop never runs, blocked sender and Closed never delivered'),
 'C02-seed3': ('src/sources/generic.rs Generic::reregister', 'the fresh token is passed to poll.reregister but self.token is not updated', 'a Generic nested in a composite source whose sub-id shifts across update(); kernel key and stored token then differ and events are silently skipped'),
 'C03-seed1': ('src/sources/ping/eventfd.rs make_ping', 'ping source registered Mode::Edge instead of Mode::Level', 'another source ready first returns Err in the same dispatch, so the batch is abandoned; edge mode never re-reports the undrained eventfd'),
 'C03-seed2': ('src/sources/ping/eventfd.rs Ping::ping / process_events', 'a pending flag suppresses redundant writes and is cleared after the callback instead of before the drain', 'a ping issued while the callback runs (from the callback itself or another thread) writes nothing and is then forgotten'),
 'C03-seed3': ('src/sources/ping/eventfd.rs FlagOnDrop/Ping::drop', 'last-handle detection by Arc::strong_count instead of the FlagOnDrop guard', 'the last two handles dropped concurrently on different threads both skip the close marker (race; demo is statistical over 50k rounds)'),
 'C07-seed1': ('src/sources/generic.rs Generic::unregister', 'self.token = None dropped', 'two sources ready in the same dispatch, the first disables the second from its callback: the already collected event still reaches the disabled source'),
 'C07-seed2': ('src/loop_logic.rs dispatch_events', 'reg_token = event.token.inner instead of forget_sub_id()', 'a lifecycle (before_sleep) source disabling itself while processing an event whose token has a non-zero sub-id: its lifecycle entry is compared with == and stays'),
 'C07-seed3': ('src/sources/timer.rs Timer::unregister', 'registration is borrowed, not taken', 'an expired timer and a ready fd source in one dispatch, the fd source disables the timer: the popped expiry is still delivered and the timer re-arms'),
 'C12-seed1': ('src/sys.rs Poll::poll + call site', 'poll() uses the Instant captured at the top of dispatch_events for the deadline clamp', 'a before_sleep hook that takes time plus an armed timer: dispatch oversleeps the deadline by the hook duration'),
 'C12-seed2': ('src/loop_logic.rs dispatch_events before_sleep loop', 'per-source match resets the poll timeout to the caller timeout in the None arm', '>= 2 lifecycle sources where a later one returns None after an earlier one returned a synthetic event: dispatch blocks although an event is pending'),
 'C12-seed3': ('src/sources/timer.rs TimerWheel::cancel/next_expired', 'lazy cancellation: non-top entries are only flagged; next_deadline still reports them', 'cancel a timer that is not the earliest, let the earlier fire, then wait: dispatch wakes at the dead deadline and returns early'),
 'C13-seed1': ('src/loop_logic.rs dispatch_idles', 'the drained buffer is assigned back to inner.idles after running the idles', 'an idle callback that itself calls insert_idle: the nested idle is overwritten and never runs'),
 'C13-seed2': ('src/loop_logic.rs EventLoop::dispatch', 'idles are run even when dispatch_events returned Err', "a source's process_events returns Err while an idle is queued: the idle runs in a dispatch that did not return Ok"),
 'C13-seed3': ('src/sources/mod.rs IdleDispatcher + dispatch_idles', 'callbacks are moved out of all cancellable slots first, then run', 'two pending idles, the earlier cancels the later from inside its callback: the cancelled idle still runs'),
 'C16-seed1': ('src/loop_logic.rs dispatch_events removed-check', 'get(..).ok().map(is_none).unwrap_or(true) becomes matches!(get(..), Ok(SourceEntry{source: None, ..}))', 'a source removes itself in its callback AND the slot is reused in the same callback (generation bumped) while the object stays alive: it is never unregistered, fd stays in epoll'),
 'C16-seed2': ('src/sources/generic.rs Generic::unregister', 'self.poller = None dropped', 'G1 removed/disabled but kept alive, G2 inserted on the same fd, then G1 dropped/unwrapped: the stale delete removes G2\'s registration'),
 'C16-seed3': ('src/loop_logic.rs LoopHandle::disable/update', 'deferred action stored as pending | Disable (Continue | Disable == Reregister)', 'disable(own token) from inside the source\'s own callback returning Continue: the source is re-registered instead of unregistered'),
}
CONFIRM = 'tools/confirm_seeds.sh: calloop suite (cargo test --workspace --no-fail-fast --offline, 55 tests + doctests) passes with the change; demo test fails with the change and passes on the clean tree'
for sid, (where, change, needs) in sorted(META.items()):
    P, n = sid.split('-seed')
    d = os.path.join(ROOT, 'seeded', sid)
    src = '/tmp/wt/%s-seed%s.diff' % (P, n)
    if os.path.exists(src):
        os.makedirs(os.path.join(d, 'demo', 'tests'), exist_ok=True)
        shutil.copy(src, os.path.join(d, 'patch.diff'))
        shutil.copy('/tmp/wt/%s-demo/tests/seed%s.rs' % (P, n), os.path.join(d, 'demo', 'tests', 'seed%s.rs' % n))
        ct = open('/tmp/wt/%s-demo/Cargo.toml' % P).read().replace('/tmp/wt/%s' % P, '/path/to/calloop-worktree')
        open(os.path.join(d, 'demo', 'Cargo.toml'), 'w').write(ct)
        md = '/tmp/wt/%s-seeds.md' % P
        if os.path.exists(md):
            shutil.copy(md, os.path.join(ROOT, 'seeded', '%s-seeds.md' % P))
    if os.path.isdir(d):
        json.dump({'id': sid, 'property': P, 'where': where, 'change': change, 'needs_to_manifest': needs,
                   'origin': 'independent sub-agent given only the property text and a scratch worktree',
                   'confirmed': CONFIRM, 'demo': 'demo/tests/seed%s.rs (cargo test --offline --test seed%s; set the calloop path in demo/Cargo.toml)' % (n, n),
                   'report': '../%s-seeds.md' % P}, open(os.path.join(d, 'meta.json'), 'w'), indent=1)
# back-fill for earlier seeds: take the heading of the report
for sid in sorted(os.listdir(os.path.join(ROOT, 'seeded'))):
    d = os.path.join(ROOT, 'seeded', sid)
    if not os.path.isdir(d) or os.path.exists(os.path.join(d, 'meta.json')):
        continue
    P, n = sid.split('-seed')
    md = os.path.join(ROOT, 'seeded', '%s-seeds.md' % P)
    title, body = '', ''
    if os.path.exists(md):
        txt = open(md).read()
        m = re.search(r'^## Seed %s\b[^\n]*' % n, txt, re.M)
        if m:
            title = m.group(0).lstrip('# ').strip()
            rest = txt[m.end():]
            m2 = re.search(r'What is needed for it to manifest:(.*?)(\n\n|\Z)', rest, re.S)
            if not m2:
                m2 = re.search(r'(?i)(needs|manifest)[^\n]*:(.*?)(\n\n|\Z)', rest, re.S)
            body = re.sub(r'\s+', ' ', m2.group(0)).strip()[:600] if m2 else ''
    json.dump({'id': sid, 'property': P, 'change': title, 'needs_to_manifest': body or 'see report',
               'origin': 'independent sub-agent given only the property text and a scratch worktree (earlier session)',
               'confirmed': CONFIRM, 'demo': 'demo/tests/seed%s.rs' % n, 'report': '../%s-seeds.md' % P},
              open(os.path.join(d, 'meta.json'), 'w'), indent=1)
print('ok')
