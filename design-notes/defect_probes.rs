use calloop::*;
use calloop::timer::{Timer, TimeoutAction};
use calloop::ping::make_ping;
use std::cell::{Cell, RefCell};
use std::rc::Rc;
use std::time::{Duration, Instant};

struct Life { ping: calloop::ping::PingSource, bs: Rc<Cell<u32>>, bh: Rc<Cell<u32>>, fail_reg: bool }
impl EventSource for Life {
    type Event = (); type Metadata = (); type Ret = (); type Error = calloop::ping::PingError;
    fn process_events<F>(&mut self, r: Readiness, t: Token, cb: F) -> std::result::Result<PostAction, Self::Error> where F: FnMut((), &mut ()) {
        self.ping.process_events(r, t, cb)
    }
    fn register(&mut self, p: &mut Poll, tf: &mut TokenFactory) -> calloop::Result<()> {
        if self.fail_reg { return Err(calloop::Error::InvalidToken); }
        self.ping.register(p, tf) }
    fn reregister(&mut self, p: &mut Poll, tf: &mut TokenFactory) -> calloop::Result<()> { self.ping.reregister(p, tf) }
    fn unregister(&mut self, p: &mut Poll) -> calloop::Result<()> { self.ping.unregister(p) }
    const NEEDS_EXTRA_LIFECYCLE_EVENTS: bool = true;
    fn before_sleep(&mut self) -> calloop::Result<Option<(Readiness, Token)>> { self.bs.set(self.bs.get()+1); Ok(None) }
    fn before_handle_events(&mut self, _e: EventIterator<'_>) { self.bh.set(self.bh.get()+1); }
}

#[test]
fn lifecycle_dup_after_update() {
    let mut el: EventLoop<()> = EventLoop::try_new().unwrap();
    let (_p, ps) = make_ping().unwrap();
    let bs = Rc::new(Cell::new(0)); let bh = Rc::new(Cell::new(0));
    let tok = el.handle().insert_source(Life{ping: ps, bs: bs.clone(), bh: bh.clone(), fail_reg: false}, |_,_,_|{}).unwrap();
    el.dispatch(Duration::ZERO, &mut ()).unwrap();
    println!("before update: bs={} bh={}", bs.get(), bh.get());
    el.handle().update(&tok).unwrap();
    bs.set(0); bh.set(0);
    el.dispatch(Duration::ZERO, &mut ()).unwrap();
    println!("after update: bs={} bh={}", bs.get(), bh.get());
    assert_eq!(bs.get(), 1, "before_sleep called more than once");
}

#[test]
fn lifecycle_stale_after_failed_insert() {
    let mut el: EventLoop<()> = EventLoop::try_new().unwrap();
    let (_p, ps) = make_ping().unwrap();
    let bs = Rc::new(Cell::new(0)); let bh = Rc::new(Cell::new(0));
    let r = el.handle().insert_source(Life{ping: ps, bs: bs.clone(), bh: bh.clone(), fail_reg: true}, |_,_,_|{});
    assert!(r.is_err());
    el.dispatch(Duration::ZERO, &mut ()).unwrap();
}

#[test]
fn pending_action_leaks_after_error() {
    let mut el: EventLoop<()> = EventLoop::try_new().unwrap();
    let h = el.handle();
    // source A: generic on a pipe-like (ping as Generic) whose callback disables itself then errors
    let (pa, psa) = make_ping().unwrap();
    let (pb, psb) = make_ping().unwrap();
    let tok_a: Rc<Cell<Option<RegistrationToken>>> = Rc::new(Cell::new(None));
    // Wrap ping in a source that returns an error after callback
    struct Erring { ping: calloop::ping::PingSource }
    impl EventSource for Erring {
        type Event = (); type Metadata = (); type Ret = (); type Error = std::io::Error;
        fn process_events<F>(&mut self, r: Readiness, t: Token, cb: F) -> std::result::Result<PostAction, Self::Error> where F: FnMut((), &mut ()) {
            let _ = self.ping.process_events(r, t, cb);
            Err(std::io::Error::new(std::io::ErrorKind::Other, "boom"))
        }
        fn register(&mut self, p: &mut Poll, tf: &mut TokenFactory) -> calloop::Result<()> { self.ping.register(p, tf) }
        fn reregister(&mut self, p: &mut Poll, tf: &mut TokenFactory) -> calloop::Result<()> { self.ping.reregister(p, tf) }
        fn unregister(&mut self, p: &mut Poll) -> calloop::Result<()> { self.ping.unregister(p) }
    }
    let h2 = h.clone(); let ta = tok_a.clone();
    let t = h.insert_source(Erring{ping: psa}, move |_,_,_| { h2.disable(&ta.get().unwrap()).unwrap(); }).unwrap();
    tok_a.set(Some(t));
    let count_b = Rc::new(Cell::new(0)); let cb = count_b.clone();
    let _tb = h.insert_source(psb, move |_,_,_| { cb.set(cb.get()+1); }).unwrap();
    pa.ping();
    assert!(el.dispatch(Duration::ZERO, &mut ()).is_err());
    // now B gets pinged twice in two dispatches; it should fire both times
    pb.ping();
    el.dispatch(Duration::ZERO, &mut ()).unwrap();
    pb.ping();
    el.dispatch(Duration::ZERO, &mut ()).unwrap();
    assert_eq!(count_b.get(), 2, "B was disabled by A's leaked pending action");
}

#[test]
fn async_fd_stays_registered() {
    let el: EventLoop<()> = EventLoop::try_new().unwrap();
    let (a, _b) = std::os::unix::net::UnixStream::pair().unwrap();
    let ad = el.handle().adapt_io(a).unwrap();
    let a = ad.into_inner();
    let r = el.handle().adapt_io(a);
    assert!(r.is_ok(), "re-adapt failed: {:?}", r.err());
}

#[test]
fn timer_update_from_other_callback_fires_early() {
    let mut el: EventLoop<()> = EventLoop::try_new().unwrap();
    let h = el.handle();
    let fired: Rc<RefCell<Vec<(Instant, Instant)>>> = Rc::new(RefCell::new(vec![]));
    let f2 = fired.clone();
    let (p, ps) = make_ping().unwrap();
    let disp = Dispatcher::new(Timer::from_deadline(Instant::now()), move |dl, _, _: &mut ()| { f2.borrow_mut().push((Instant::now(), dl)); TimeoutAction::Drop });
    let ttok = h.register_dispatcher(disp.clone()).unwrap();
    let d2 = disp.clone(); let h2 = h.clone();
    h.insert_source(ps, move |_,_,_| {
        d2.as_source_mut().set_deadline(Instant::now() + Duration::from_secs(3600));
        h2.update(&ttok).unwrap();
    }).unwrap();
    p.ping();
    std::thread::sleep(Duration::from_millis(5));
    el.dispatch(Duration::ZERO, &mut ()).unwrap();
    for (now, dl) in fired.borrow().iter() { assert!(now >= dl, "timer fired {:?} before its deadline", *dl - *now); }
}
