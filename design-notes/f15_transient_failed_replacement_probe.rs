// F15 probe: TransientSource -- the replacement's first registration fails (e.g. EEXIST because its fd is still owned by
// another source). The old child has been unregistered by then, but the wrapper stays in `Replace { new, old }`, so the
// retry (update() again, or removal / disable of the wrapper) unregisters the OLD child a second time. With an fd-backed
// child that second unregister fails with ENOENT, i.e. the wrapper can never leave the state again.
use calloop::transient::TransientSource;
use calloop::{Dispatcher, EventLoop, EventSource, Poll, PostAction, Readiness, Token, TokenFactory};
use std::cell::{Cell, RefCell};
use std::rc::Rc;

struct Child {
    name: &'static str,
    registered: bool,
    fail_register: Rc<Cell<bool>>,
    log: Rc<RefCell<Vec<String>>>,
}
impl EventSource for Child {
    type Event = ();
    type Metadata = ();
    type Ret = ();
    type Error = std::io::Error;
    fn process_events<F: FnMut((), &mut ())>(&mut self, _: Readiness, _: Token, _: F) -> Result<PostAction, Self::Error> {
        Ok(PostAction::Continue)
    }
    fn register(&mut self, _: &mut Poll, _: &mut TokenFactory) -> calloop::Result<()> {
        if self.fail_register.get() {
            return Err(calloop::Error::IoError(std::io::Error::from_raw_os_error(17)));
        }
        if self.registered { self.log.borrow_mut().push(format!("{}: register while registered", self.name)); }
        self.registered = true;
        Ok(())
    }
    fn reregister(&mut self, _: &mut Poll, _: &mut TokenFactory) -> calloop::Result<()> {
        if !self.registered { self.log.borrow_mut().push(format!("{}: reregister while unregistered", self.name)); }
        Ok(())
    }
    fn unregister(&mut self, _: &mut Poll) -> calloop::Result<()> {
        if !self.registered {
            self.log.borrow_mut().push(format!("{}: unregister while unregistered", self.name));
            return Err(calloop::Error::IoError(std::io::Error::from_raw_os_error(2)));
        }
        self.registered = false;
        Ok(())
    }
}

#[test]
fn failed_replacement_then_retry() {
    let mut el = EventLoop::<()>::try_new().unwrap();
    let h = el.handle();
    let log = Rc::new(RefCell::new(Vec::new()));
    let fail = Rc::new(Cell::new(false));
    let old = Child { name: "old", registered: false, fail_register: Rc::new(Cell::new(false)), log: log.clone() };
    let new = Child { name: "new", registered: false, fail_register: fail.clone(), log: log.clone() };
    let d = Dispatcher::new(TransientSource::from(old), |_, _, _| {});
    let tok = h.register_dispatcher(d.clone()).unwrap();
    el.dispatch(Some(std::time::Duration::ZERO), &mut ()).unwrap();
    // replace; the new child's first registration is refused
    fail.set(true);
    d.as_source_mut().replace(new);
    assert!(h.update(&tok).is_err(), "the refused registration is reported");
    // the cause is removed, the application retries
    fail.set(false);
    let second = h.update(&tok);
    assert!(log.borrow().is_empty(), "child protocol violated: {:?}", log.borrow());
    assert!(second.is_ok(), "the retry registers the replacement: {:?}", second);
}

// second history: after the refused registration the application gives up on the replacement and removes it (or replaces
// it once more). The replacement was never registered, so nothing may be unregistered for it.
#[test]
fn failed_replacement_then_remove() {
    let mut el = EventLoop::<()>::try_new().unwrap();
    let h = el.handle();
    let log = Rc::new(RefCell::new(Vec::new()));
    let fail = Rc::new(Cell::new(false));
    let old = Child { name: "old", registered: false, fail_register: Rc::new(Cell::new(false)), log: log.clone() };
    let new = Child { name: "new", registered: false, fail_register: fail.clone(), log: log.clone() };
    let d = Dispatcher::new(TransientSource::from(old), |_, _, _| {});
    let tok = h.register_dispatcher(d.clone()).unwrap();
    el.dispatch(Some(std::time::Duration::ZERO), &mut ()).unwrap();
    fail.set(true);
    d.as_source_mut().replace(new);
    assert!(h.update(&tok).is_err());
    d.as_source_mut().remove();
    let r = h.update(&tok);
    assert!(log.borrow().is_empty(), "child protocol violated: {:?}", log.borrow());
    assert!(r.is_ok(), "{:?}", r);
    assert!(d.as_source_ref().is_none());
}
