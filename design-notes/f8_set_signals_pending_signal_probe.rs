// F8 (C19): Signals::set_signals unblocks the WHOLE old mask before blocking the new one. A signal that is configured
// before and after the call and is pending at that moment is delivered with its default disposition in the window
// (SIGUSR1: the process is terminated) instead of being reported by the source.
use calloop::signals::{Signal, Signals};
use calloop::EventLoop;
use std::process::Command;

fn scenario() {
    // (child process) configure SIGUSR1, make one instance pending, then reconfigure to {SIGUSR1, SIGUSR2}
    let mut el: EventLoop<u32> = EventLoop::try_new().unwrap();
    let mut signals = Signals::new(&[Signal::SIGUSR1]).unwrap();
    nix::sys::signal::raise(nix::sys::signal::Signal::SIGUSR1).unwrap(); // blocked => pending
    signals.set_signals(&[Signal::SIGUSR1, Signal::SIGUSR2]).unwrap();
    // if we are still alive the instance must be reported by the source
    el.handle().insert_source(signals, |evt, _, got: &mut u32| { if evt.signal() == Signal::SIGUSR1 { *got += 1; } }).unwrap();
    let mut got = 0u32;
    el.dispatch(std::time::Duration::from_millis(200), &mut got).unwrap();
    std::process::exit(if got == 1 { 0 } else { 3 });
}

#[test]
fn pending_signal_that_stays_configured_survives_set_signals() {
    if std::env::var("F8_CHILD").is_ok() {
        scenario();
    }
    let st = Command::new(std::env::current_exe().unwrap())
        .args(["--exact", "pending_signal_that_stays_configured_survives_set_signals", "--nocapture", "--test-threads=1"])
        .env("F8_CHILD", "1")
        .status()
        .unwrap();
    use std::os::unix::process::ExitStatusExt;
    assert!(st.signal().is_none(), "the child was killed by signal {:?}: the pending SIGUSR1 was delivered with its default disposition", st.signal());
    assert_eq!(st.code(), Some(0), "the pending instance was not reported exactly once (exit code {:?})", st.code());
}
