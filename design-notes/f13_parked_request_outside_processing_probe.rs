// F13 probe: a disable()/update() requested while the addressed source is merely BORROWED (not being dispatched)
// is parked in the loop-wide cell and later applied to ANOTHER source.
use calloop::ping::make_ping;
use calloop::{Dispatcher, EventLoop};
use std::time::Duration;

#[test]
fn parked_disable_outside_dispatch_hits_another_source() {
    let mut event_loop = EventLoop::<(u32, u32)>::try_new().unwrap();
    let handle = event_loop.handle();

    let (ping_a, source_a) = make_ping().unwrap();
    let (ping_b, source_b) = make_ping().unwrap();
    let disp_a = Dispatcher::new(source_a, |(), &mut (), d: &mut (u32, u32)| d.0 += 1);
    let tok_a = handle.register_dispatcher(disp_a.clone()).unwrap();
    let _tok_b = handle
        .insert_source(source_b, |(), &mut (), d: &mut (u32, u32)| d.1 += 1)
        .unwrap();

    {
        // the user inspects source A ...
        let _guard = disp_a.as_source_mut();
        // ... and disables it meanwhile: accepted (Ok), but only parked
        handle.disable(&tok_a).unwrap();
    }

    let mut data = (0, 0);
    ping_b.ping();
    event_loop.dispatch(Duration::ZERO, &mut data).unwrap();
    assert_eq!(data, (0, 1));
    // B asked for nothing; it must still be enabled
    ping_b.ping();
    event_loop.dispatch(Duration::from_millis(50), &mut data).unwrap();
    assert_eq!(data.1, 2, "source B was disabled by the request parked for source A");
    // and A, whose disable() returned Ok, must be silent
    ping_a.ping();
    event_loop.dispatch(Duration::from_millis(50), &mut data).unwrap();
    assert_eq!(data.0, 0, "source A still fires although disable() returned Ok");
}
