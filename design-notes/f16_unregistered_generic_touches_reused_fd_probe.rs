// F16 probe: a Generic that holds no registration (it has been disabled) still acts on the poller entry of its fd
// NUMBER when it is unregistered or re-registered once more -- and by then that entry may belong to another source that
// was inserted on the same fd after the disable (C16 explicitly allows that: "the same fd can be inserted again").
use calloop::generic::Generic;
use calloop::{EventLoop, Interest, Mode, PostAction};
use std::cell::Cell;
use std::io::Write;
use std::os::unix::net::UnixStream;
use std::rc::Rc;
use std::sync::Arc;
use std::time::Duration;

struct Setup {
    el: EventLoop<'static, ()>,
    tx: UnixStream,
    a_runs: Rc<Cell<u32>>,
    b_runs: Rc<Cell<u32>>,
    tok_a: calloop::RegistrationToken,
}
fn setup() -> Setup {
    let el = EventLoop::<()>::try_new().unwrap();
    let h = el.handle();
    let (tx, rx) = UnixStream::pair().unwrap();
    let rx = Arc::new(rx);
    let (a_runs, b_runs) = (Rc::new(Cell::new(0)), Rc::new(Cell::new(0)));
    let ar = a_runs.clone();
    let tok_a = h
        .insert_source(Generic::new(rx.clone(), Interest::READ, Mode::Level), move |_, _, _| {
            ar.set(ar.get() + 1);
            Ok(PostAction::Continue)
        })
        .unwrap();
    // A is disabled: its fd has left the poller, the same fd may be inserted again
    h.disable(&tok_a).unwrap();
    let br = b_runs.clone();
    let _tok_b = h
        .insert_source(Generic::new(rx.clone(), Interest::READ, Mode::Level), move |_, _, _| {
            br.set(br.get() + 1);
            Ok(PostAction::Continue)
        })
        .unwrap();
    Setup { el, tx, a_runs, b_runs, tok_a }
}

#[test]
fn remove_of_a_disabled_source_disturbs_the_new_owner_of_the_fd() {
    let mut s = setup();
    s.el.handle().remove(s.tok_a);
    s.tx.write_all(&[1]).unwrap();
    s.el.dispatch(Some(Duration::from_millis(100)), &mut ()).unwrap();
    assert_eq!(s.b_runs.get(), 1, "B is inserted and enabled, its fd is readable: B must be dispatched");
}

#[test]
fn second_disable_disturbs_the_new_owner_of_the_fd() {
    let mut s = setup();
    let _ = s.el.handle().disable(&s.tok_a);
    s.tx.write_all(&[1]).unwrap();
    s.el.dispatch(Some(Duration::from_millis(100)), &mut ()).unwrap();
    assert_eq!(s.b_runs.get(), 1, "B is inserted and enabled, its fd is readable: B must be dispatched");
}

#[test]
fn update_of_a_disabled_source_steals_the_registration_of_the_new_owner() {
    let mut s = setup();
    let _ = s.el.handle().update(&s.tok_a);
    s.tx.write_all(&[1]).unwrap();
    s.el.dispatch(Some(Duration::from_millis(100)), &mut ()).unwrap();
    assert_eq!(s.a_runs.get(), 0, "A is disabled and was never enabled again: it must not be dispatched");
    assert_eq!(s.b_runs.get(), 1, "B is inserted and enabled, its fd is readable: B must be dispatched");
}
