// F6 probes: TransientSource does not track whether its child is actually registered.
// An instrumented child records protocol violations (register while registered / unregister while not).
use calloop::transient::TransientSource;
use calloop::{EventLoop, EventSource, Poll, PostAction, Readiness, Token, TokenFactory};
use std::cell::RefCell;
use std::rc::Rc;

#[derive(Default)]
struct Log { registered: bool, violations: Vec<&'static str> }
struct Child { log: Rc<RefCell<Log>>, action: PostAction, ping: calloop::ping::PingSource }
impl EventSource for Child {
    type Event = (); type Metadata = (); type Ret = (); type Error = calloop::ping::PingError;
    fn process_events<F>(&mut self, r: Readiness, t: Token, mut cb: F) -> Result<PostAction, Self::Error>
    where F: FnMut((), &mut ()) {
        self.ping.process_events(r, t, |_, _| cb((), &mut ()))?;
        Ok(self.action)
    }
    fn register(&mut self, p: &mut Poll, f: &mut TokenFactory) -> calloop::Result<()> {
        let mut l = self.log.borrow_mut();
        if l.registered { l.violations.push("register while registered"); }
        l.registered = true; drop(l);
        self.ping.register(p, f)
    }
    fn reregister(&mut self, p: &mut Poll, f: &mut TokenFactory) -> calloop::Result<()> {
        if !self.log.borrow().registered { self.log.borrow_mut().violations.push("reregister while unregistered"); }
        self.ping.reregister(p, f)
    }
    fn unregister(&mut self, p: &mut Poll) -> calloop::Result<()> {
        let mut l = self.log.borrow_mut();
        if !l.registered { l.violations.push("unregister while unregistered"); }
        l.registered = false; drop(l);
        self.ping.unregister(p)
    }
}
fn child(action: PostAction) -> (Child, calloop::ping::Ping, Rc<RefCell<Log>>) {
    let (ping, src) = calloop::ping::make_ping().unwrap();
    let log = Rc::new(RefCell::new(Log::default()));
    (Child { log: log.clone(), action, ping: src }, ping, log)
}

// (a) child returns Disable; the wrapper is re-registered twice (second time for an unrelated reason)
#[test]
fn disable_then_second_reregister() {
    let mut el: EventLoop<()> = EventLoop::try_new().unwrap();
    let (c, ping, log) = child(PostAction::Disable);
    let tok = el.handle().insert_source(TransientSource::from(c), |_, _, _| {}).unwrap();
    ping.ping();
    el.dispatch(std::time::Duration::ZERO, &mut ()).unwrap(); // child -> Disable, wrapper reregistered: child unregistered
    let res = el.handle().update(&tok);                         // second reregister
    assert!(log.borrow().violations.is_empty(), "{:?} (update returned {:?})", log.borrow().violations, res.is_ok());
}
// (b) parent unregistered (disable) while the child is still in the Register state of a registered parent
#[test]
fn unregister_in_register_state() {
    let mut el: EventLoop<()> = EventLoop::try_new().unwrap();
    let (c0, _p0, _l0) = child(PostAction::Continue);
    let disp = calloop::Dispatcher::new(TransientSource::from(c0), |_, _, _: &mut ()| {});
    let tok = el.handle().register_dispatcher(disp.clone()).unwrap();
    let (c1, _p1, log1) = child(PostAction::Continue);
    *disp.as_source_mut() = TransientSource::from(c1);           // fresh child: state Register, parent registered
    let res = el.handle().disable(&tok);
    assert!(log1.borrow().violations.is_empty(), "{:?} (disable returned ok={})", log1.borrow().violations, res.is_ok());
}
// (d) replace() followed by the parent's unregister before the re-registration happened
#[test]
fn unregister_in_replace_state() {
    let mut el: EventLoop<()> = EventLoop::try_new().unwrap();
    let (c0, _p0, _l0) = child(PostAction::Continue);
    let disp = calloop::Dispatcher::new(TransientSource::from(c0), |_, _, _: &mut ()| {});
    let tok = el.handle().register_dispatcher(disp.clone()).unwrap();
    let (c1, _p1, log1) = child(PostAction::Continue);
    disp.as_source_mut().replace(c1);
    let res = el.handle().disable(&tok);
    assert!(log1.borrow().violations.is_empty(), "{:?} (disable returned ok={})", log1.borrow().violations, res.is_ok());
}
