// F9 probe: TimerWheel.counter (u32) is incremented at every arming and wraps after 2^32 armings (release
// build: silently). A new timer then shares the counter of an older, still armed one, and cancelling the new
// one removes the OLD timer's heap entry when that one is at the top of the heap.
use calloop::timer::{Timer, TimeoutAction};
use calloop::EventLoop;
use std::time::{Duration, Instant};
fn main() {
    let mut el: EventLoop<u32> = EventLoop::try_new().unwrap();
    let h = el.handle();
    // A: counter 0, already due, but we do not dispatch until the end
    let _a = h.insert_source(Timer::immediate(), |_, _, fired: &mut u32| { *fired += 1; TimeoutAction::Drop }).unwrap();
    // C: counter 1, far away; every update() re-arms it and consumes one counter value
    let c = h.insert_source(Timer::from_duration(Duration::from_secs(1_000_000)), |_, _, _| TimeoutAction::Drop).unwrap();
    let start = Instant::now();
    let n: u64 = (1u64 << 32) - 2;
    for i in 0..n {
        h.update(&c).unwrap();
        if i % (1 << 28) == 0 { eprintln!("{}/16 after {:?}", i >> 28, start.elapsed()); }
    }
    // the wheel counter has wrapped to 0: B gets counter 0, like A
    let b = h.insert_source(Timer::from_duration(Duration::from_secs(2_000_000)), |_, _, _| TimeoutAction::Drop).unwrap();
    // cancelling B ("counter 0") pops the top of the heap, which is A
    h.remove(b);
    let mut fired = 0u32;
    el.dispatch(Duration::ZERO, &mut fired).unwrap();
    println!("armings done in {:?}; A fired {} time(s) (expected 1)", start.elapsed(), fired);
    std::process::exit(if fired == 1 { 0 } else { 1 });
}
