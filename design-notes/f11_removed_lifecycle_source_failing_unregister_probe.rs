// F11 candidate (C14/C15): a lifecycle source whose unregister() fails is removed: its slot is vacated but its entry stays in
// the additional-lifecycle set => the next dispatch reaches `unreachable!()`.
use calloop::{EventLoop, EventSource, Poll, PostAction, Readiness, Token, TokenFactory};
use calloop::ping::{make_ping, PingSource};

struct Life { ping: PingSource, fail_unregister: bool }
impl EventSource for Life {
    type Event = (); type Metadata = (); type Ret = (); type Error = calloop::ping::PingError;
    fn process_events<F>(&mut self, r: Readiness, t: Token, cb: F) -> Result<PostAction, Self::Error> where F: FnMut((), &mut ()) { self.ping.process_events(r, t, cb) }
    fn register(&mut self, p: &mut Poll, tf: &mut TokenFactory) -> calloop::Result<()> { self.ping.register(p, tf) }
    fn reregister(&mut self, p: &mut Poll, tf: &mut TokenFactory) -> calloop::Result<()> { self.ping.reregister(p, tf) }
    fn unregister(&mut self, p: &mut Poll) -> calloop::Result<()> {
        let r = self.ping.unregister(p);
        if self.fail_unregister { return Err(calloop::Error::IoError(std::io::Error::new(std::io::ErrorKind::Other, "unregister failed"))); }
        r
    }
    const NEEDS_EXTRA_LIFECYCLE_EVENTS: bool = true;
    fn before_sleep(&mut self) -> calloop::Result<Option<(Readiness, Token)>> { Ok(None) }
}

#[test]
fn removing_a_lifecycle_source_whose_unregister_fails_does_not_poison_the_loop() {
    let mut el: EventLoop<()> = EventLoop::try_new().unwrap();
    let (_p, src) = make_ping().unwrap();
    let tok = el.handle().insert_source(Life { ping: src, fail_unregister: true }, |_, _, _| {}).unwrap();
    el.handle().remove(tok);
    // must not panic
    let r = std::panic::catch_unwind(std::panic::AssertUnwindSafe(|| el.dispatch(std::time::Duration::ZERO, &mut ())));
    assert!(r.is_ok(), "dispatch panicked after removing a lifecycle source whose unregister failed");
}

#[test]
fn a_lifecycle_source_removing_itself_from_its_callback_with_a_failing_unregister_does_not_poison_the_loop() {
    let mut el: EventLoop<Option<calloop::RegistrationToken>> = EventLoop::try_new().unwrap();
    let (p, src) = make_ping().unwrap();
    let h = el.handle();
    let tok = el
        .handle()
        .insert_source(Life { ping: src, fail_unregister: true }, move |_, _, me: &mut Option<calloop::RegistrationToken>| {
            // remove ourselves while being dispatched: the unregistration is deferred to dispatch_events
            if let Some(t) = me.take() { h.remove(t); }
        })
        .unwrap();
    let mut data = Some(tok);
    p.ping();
    el.dispatch(std::time::Duration::from_millis(100), &mut data).unwrap();
    assert!(data.is_none(), "callback did not run");
    let r = std::panic::catch_unwind(std::panic::AssertUnwindSafe(|| el.dispatch(std::time::Duration::ZERO, &mut data)));
    assert!(r.is_ok(), "dispatch panicked after a self-removed lifecycle source whose unregister failed");
}
