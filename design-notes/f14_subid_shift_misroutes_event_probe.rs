// F14 probe: sub-ids are positional; a mid-batch re-registration of a composite source shifts them, and an event
// already collected for one sub-source (old sub-id) is delivered to the sub-source that now owns that sub-id.
use calloop::generic::Generic;
use calloop::transient::TransientSource;
use calloop::{EventLoop, EventSource, Interest, Mode, Poll, PostAction, Readiness, Token, TokenFactory};
use std::io::Write;
use std::os::unix::net::UnixStream;
use std::time::Duration;

struct Composite {
    a: TransientSource<Generic<UnixStream>>,
    b: Generic<UnixStream>,
    d: Generic<UnixStream>,
}

impl EventSource for Composite {
    type Event = char;
    type Metadata = ();
    type Ret = ();
    type Error = Box<dyn std::error::Error + Sync + Send>;
    fn process_events<F>(&mut self, r: Readiness, t: Token, mut cb: F) -> Result<PostAction, Self::Error>
    where
        F: FnMut(char, &mut ()),
    {
        let pa = self.a.process_events(r, t, |_, _| {
            cb('a', &mut ());
            Ok(PostAction::Remove) // A is done
        })?;
        let pb = self.b.process_events(r, t, |_, _| {
            cb('b', &mut ());
            Ok(PostAction::Continue)
        })?;
        let pd = self.d.process_events(r, t, |_, _| {
            cb('d', &mut ());
            Ok(PostAction::Continue)
        })?;
        Ok(pa | pb | pd)
    }
    fn register(&mut self, p: &mut Poll, f: &mut TokenFactory) -> calloop::Result<()> {
        self.a.register(p, f)?;
        self.b.register(p, f)?;
        self.d.register(p, f)
    }
    fn reregister(&mut self, p: &mut Poll, f: &mut TokenFactory) -> calloop::Result<()> {
        self.a.reregister(p, f)?;
        self.b.reregister(p, f)?;
        self.d.reregister(p, f)
    }
    fn unregister(&mut self, p: &mut Poll) -> calloop::Result<()> {
        self.a.unregister(p)?;
        self.b.unregister(p)?;
        self.d.unregister(p)
    }
}

#[test]
fn event_of_b_reaches_d_after_mid_batch_reregistration() {
    let mut event_loop = EventLoop::<Vec<char>>::try_new().unwrap();
    let handle = event_loop.handle();
    let (mut wa, ra) = UnixStream::pair().unwrap();
    let (mut wb, rb) = UnixStream::pair().unwrap();
    let (_wd, rd) = UnixStream::pair().unwrap();
    let comp = Composite {
        a: Generic::new(ra, Interest::READ, Mode::Level).into(),
        b: Generic::new(rb, Interest::READ, Mode::Level),
        d: Generic::new(rd, Interest::READ, Mode::Level),
    };
    handle
        .insert_source(comp, |c, _, log: &mut Vec<char>| log.push(c))
        .unwrap();
    let mut log = Vec::new();
    event_loop.dispatch(Duration::ZERO, &mut log).unwrap();
    assert!(log.is_empty());
    // A becomes readable first, then B: one batch [A, B]
    wa.write_all(b"x").unwrap();
    wb.write_all(b"y").unwrap();
    event_loop.dispatch(Duration::ZERO, &mut log).unwrap();
    // D's fd never became readable: its callback must not run
    assert!(!log.contains(&'d'), "D was called for B's readiness: {:?}", log);
}
