// F7 (C15): a failing adapt_io leaves the loop slot occupied and the fd in non-blocking mode.
use calloop::{EventLoop, generic::Generic, Interest, Mode, PostAction};
use std::os::unix::io::AsFd;

fn is_nonblocking(f: &impl AsFd) -> bool {
    rustix::fs::fcntl_getfl(f).unwrap().contains(rustix::fs::OFlags::NONBLOCK)
}

#[test]
fn failed_adapt_io_restores_blocking_mode() {
    let el: EventLoop<()> = EventLoop::try_new().unwrap();
    // epoll refuses regular files (EPERM): registration fails after the fd was switched to non-blocking
    let file = std::fs::File::open("/proc/self/cmdline").or_else(|_| std::fs::File::open("/etc/hostname")).unwrap();
    let file = std::fs::File::open("/etc/hostname").unwrap_or(file);
    assert!(!is_nonblocking(&file));
    let r = el.handle().adapt_io(&file);
    assert!(r.is_err(), "expected registration of a regular file to fail");
    assert!(!is_nonblocking(&file), "the fd was left in non-blocking mode by the failed adapt_io");
}

#[test]
fn failed_adapt_io_does_not_leak_a_slot() {
    let el: EventLoop<()> = EventLoop::try_new().unwrap();
    let h = el.handle();
    let file = std::fs::File::open("/etc/hostname").unwrap();
    // slot 0 is free; a failed adapt_io must leave it free
    assert!(h.adapt_io(&file).is_err());
    let (a, _b) = std::os::unix::net::UnixStream::pair().unwrap();
    let t = h.insert_source(Generic::new(a, Interest::READ, Mode::Level), |_, _, _| Ok(PostAction::Continue)).unwrap();
    let dbg = format!("{:?}", t);
    assert!(dbg.contains("{ id: 0,"), "the source inserted after a failed adapt_io did not get slot 0: {}", dbg);
}
