// F17 probe: update() of a DISABLED Timer arms it again. Timer::reregister is `unregister; register`, and register arms
// whenever there is a deadline: the Timer keeps no record of whether it takes part in its loop, so the disabled timer
// fires although enable() was never called (C07: "not invoked again until enable() succeeds").
use calloop::timer::{TimeoutAction, Timer};
use calloop::EventLoop;
use std::cell::Cell;
use std::rc::Rc;
use std::time::Duration;

#[test]
fn update_of_a_disabled_timer_arms_it() {
    let mut el = EventLoop::<()>::try_new().unwrap();
    let h = el.handle();
    let fired = Rc::new(Cell::new(0));
    let f = fired.clone();
    let tok = h
        .insert_source(Timer::from_duration(Duration::from_millis(20)), move |_, _, _| {
            f.set(f.get() + 1);
            TimeoutAction::Drop
        })
        .unwrap();
    h.disable(&tok).unwrap();
    // e.g. a helper that re-registers "all my sources" after a configuration change
    h.update(&tok).unwrap();
    std::thread::sleep(Duration::from_millis(40));
    el.dispatch(Some(Duration::ZERO), &mut ()).unwrap();
    assert_eq!(fired.get(), 0, "the timer is disabled and enable() was never called: it must not fire");
}

#[test]
fn control_disabled_timer_without_update_stays_silent() {
    let mut el = EventLoop::<()>::try_new().unwrap();
    let h = el.handle();
    let fired = Rc::new(Cell::new(0));
    let f = fired.clone();
    let tok = h
        .insert_source(Timer::from_duration(Duration::from_millis(20)), move |_, _, _| {
            f.set(f.get() + 1);
            TimeoutAction::Drop
        })
        .unwrap();
    h.disable(&tok).unwrap();
    std::thread::sleep(Duration::from_millis(40));
    el.dispatch(Some(Duration::ZERO), &mut ()).unwrap();
    assert_eq!(fired.get(), 0);
}
