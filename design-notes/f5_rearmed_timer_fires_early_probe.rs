// F5 (C05): a timer whose expiry has already been popped into the current batch is re-armed (set_deadline + update) by the
// callback of another source dispatched earlier in the same batch. The stale expiry event still carries the timer's token,
// so Timer::process_events fires the callback -- with the NEW deadline, which has not been reached.
use calloop::ping::make_ping;
use calloop::timer::{TimeoutAction, Timer};
use calloop::{Dispatcher, EventLoop};
use std::cell::RefCell;
use std::rc::Rc;
use std::time::{Duration, Instant};

#[test]
fn rearmed_timer_does_not_fire_before_its_new_deadline() {
    let mut el: EventLoop<()> = EventLoop::try_new().unwrap();
    let handle = el.handle();
    let fired: Rc<RefCell<Vec<(Instant, Instant)>>> = Rc::new(RefCell::new(Vec::new())); // (deadline handed over, time of the call)
    let f2 = fired.clone();
    let timer_disp = Dispatcher::new(Timer::from_duration(Duration::from_millis(10)), move |deadline, _, _: &mut ()| {
        f2.borrow_mut().push((deadline, Instant::now()));
        TimeoutAction::Drop
    });
    let (ping, ping_src) = make_ping().unwrap();
    // the ping source is registered first: its fd event precedes the timer expirations in the batch
    let td = timer_disp.clone();
    let h2 = handle.clone();
    let ttok = Rc::new(RefCell::new(None));
    let ttok2 = ttok.clone();
    handle
        .insert_source(ping_src, move |_, _, _| {
            // re-arm the timer far in the future
            td.as_source_mut().set_deadline(Instant::now() + Duration::from_secs(3600));
            h2.update(ttok2.borrow().as_ref().unwrap()).unwrap();
        })
        .unwrap();
    *ttok.borrow_mut() = Some(handle.register_dispatcher(timer_disp.clone()).unwrap());
    std::thread::sleep(Duration::from_millis(30)); // the timer is due
    ping.ping(); // and so is the ping
    el.dispatch(Duration::from_millis(100), &mut ()).unwrap();
    for (deadline, at) in fired.borrow().iter() {
        assert!(at >= deadline, "timer callback ran {:?} BEFORE the deadline it was handed", *deadline - *at);
    }
}
