// F4 (C16): the fd of an Async adapter stays in the OS poller after the adapter is gone.
use calloop::EventLoop;
use std::os::unix::io::{AsRawFd, RawFd};

fn epoll_fds(ep: RawFd) -> Vec<i32> {
    let s = std::fs::read_to_string(format!("/proc/self/fdinfo/{}", ep)).unwrap();
    s.lines().filter_map(|l| l.strip_prefix("tfd:")).map(|r| r.trim().split_whitespace().next().unwrap().parse().unwrap()).collect()
}

#[test]
fn into_inner_releases_the_fd_and_it_can_be_adapted_again() {
    let el: EventLoop<()> = EventLoop::try_new().unwrap();
    let (a, _b) = std::os::unix::net::UnixStream::pair().unwrap();
    let raw = a.as_raw_fd();
    let ad = el.handle().adapt_io(a).unwrap();
    assert!(epoll_fds(el.as_raw_fd()).contains(&raw));
    let a = ad.into_inner();
    assert!(!epoll_fds(el.as_raw_fd()).contains(&raw), "fd {} of a dissolved Async adapter is still registered with the poller", raw);
    let r = el.handle().adapt_io(a);
    assert!(r.is_ok(), "re-adapt failed: {:?}", r.err());
}

#[test]
fn dropping_the_adapter_releases_the_fd_even_if_the_file_lives_on() {
    let el: EventLoop<()> = EventLoop::try_new().unwrap();
    let (a, _b) = std::os::unix::net::UnixStream::pair().unwrap();
    let dup = a.try_clone().unwrap();      // same open file description stays alive => the kernel does not auto-remove it
    let raw = a.as_raw_fd();
    let ad = el.handle().adapt_io(a).unwrap();
    drop(ad);
    assert!(!epoll_fds(el.as_raw_fd()).contains(&raw), "fd {} of a dropped Async adapter is still registered", raw);
    drop(dup);
}
