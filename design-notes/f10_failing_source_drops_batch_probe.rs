// F10 (C15): an error returned by one source's process_events makes dispatch drop the rest of the batch; timer
// expirations in that rest were already popped from the heap and are lost for good.
use calloop::{EventLoop, EventSource, Poll, PostAction, Readiness, Token, TokenFactory};
use calloop::ping::{make_ping, PingSource};
use calloop::timer::{Timer, TimeoutAction};
use std::cell::Cell;
use std::rc::Rc;
use std::time::{Duration, Instant};

struct Failing(PingSource);
impl EventSource for Failing {
    type Event = (); type Metadata = (); type Ret = (); type Error = std::io::Error;
    fn process_events<F>(&mut self, r: Readiness, t: Token, _cb: F) -> Result<PostAction, Self::Error> where F: FnMut((), &mut ()) {
        let _ = self.0.process_events(r, t, |_, _| {});
        Err(std::io::Error::new(std::io::ErrorKind::Other, "boom"))
    }
    fn register(&mut self, p: &mut Poll, tf: &mut TokenFactory) -> calloop::Result<()> { self.0.register(p, tf) }
    fn reregister(&mut self, p: &mut Poll, tf: &mut TokenFactory) -> calloop::Result<()> { self.0.reregister(p, tf) }
    fn unregister(&mut self, p: &mut Poll) -> calloop::Result<()> { self.0.unregister(p) }
}

#[test]
fn timer_due_in_the_batch_of_a_failing_source_still_fires() {
    let mut el: EventLoop<()> = EventLoop::try_new().unwrap();
    let h = el.handle();
    let (ping, src) = make_ping().unwrap();
    h.insert_source(Failing(src), |_, _, _| {}).unwrap();
    let fired = Rc::new(Cell::new(0));
    let f2 = fired.clone();
    h.insert_source(Timer::from_deadline(Instant::now() + Duration::from_millis(20)), move |_, _, _| { f2.set(f2.get() + 1); TimeoutAction::Drop }).unwrap();
    std::thread::sleep(Duration::from_millis(40));
    ping.ping();                      // fd event and expired timer end up in the same batch, fd events first
    let r = el.dispatch(Duration::ZERO, &mut ());
    assert!(r.is_err(), "the failing source's error is reported");
    for _ in 0..5 { let _ = el.dispatch(Duration::from_millis(50), &mut ()); }
    assert_eq!(fired.get(), 1, "the armed timer was lost when another source failed in the same batch");
}
