// regression guard for the F4/F7 repairs: a rejected adapt_io (EEXIST) must not take the fd of its rightful owner out of the poller
use calloop::{EventLoop, generic::Generic, Interest, Mode, PostAction};
use std::io::Write;
use std::os::unix::io::AsRawFd;
use std::cell::Cell;
use std::rc::Rc;
#[test]
fn rejected_adapt_io_leaves_the_other_owner_registered() {
    let mut el: EventLoop<()> = EventLoop::try_new().unwrap();
    let h = el.handle();
    let (a, mut b) = std::os::unix::net::UnixStream::pair().unwrap();
    let dup = a.try_clone().unwrap();
    let _ = dup.as_raw_fd();
    let hits = Rc::new(Cell::new(0));
    let h2 = hits.clone();
    // owner: a Generic on `a`
    let a_fd = unsafe { std::os::unix::io::BorrowedFd::borrow_raw(a.as_raw_fd()) };
    h.insert_source(Generic::new(a_fd, Interest::READ, Mode::Level), move |_, _, _| { h2.set(h2.get() + 1); Ok(PostAction::Continue) }).unwrap();
    // second registration of the very same fd is rejected by epoll (EEXIST)
    assert!(h.adapt_io(&a).is_err());
    b.write_all(b"x").unwrap();
    el.dispatch(std::time::Duration::from_millis(200), &mut ()).unwrap();
    assert_eq!(hits.get(), 1, "the Generic that owns the fd lost its registration to a rejected adapt_io");
}
