// F18 probe (observation, not decided by any obligation): update() of a DISABLED TransientSource that holds a
// replacement registers the replacement. The wrapper cannot know whether its parent (here: the loop) has it registered;
// its reregister() registers a child in `Register` / the `new` of a `Replace` whatever the parent's state. So the wrapper
// is disabled, enable() was never called, and the new child's callback runs (C07: not invoked until enable() succeeds).
use calloop::timer::{TimeoutAction, Timer};
use calloop::transient::TransientSource;
use calloop::{Dispatcher, EventLoop};
use std::cell::Cell;
use std::rc::Rc;
use std::time::Duration;

#[test]
fn update_of_a_disabled_wrapper_registers_the_replacement() {
    let mut el = EventLoop::<()>::try_new().unwrap();
    let h = el.handle();
    let fired = Rc::new(Cell::new(0));
    let f = fired.clone();
    let wrapper: TransientSource<Timer> = Timer::from_duration(Duration::from_secs(3600)).into();
    let disp = Dispatcher::new(wrapper, move |_, _, _| {
        f.set(f.get() + 1);
        TimeoutAction::Drop
    });
    let tok = h.register_dispatcher(disp.clone()).unwrap();
    h.disable(&tok).unwrap();
    // the documented protocol: change the child, then request a re-registration
    disp.as_source_mut().replace(Timer::from_duration(Duration::from_millis(20)));
    h.update(&tok).unwrap();
    std::thread::sleep(Duration::from_millis(40));
    el.dispatch(Some(Duration::ZERO), &mut ()).unwrap();
    assert_eq!(fired.get(), 0, "the wrapper is disabled and enable() was never called: nothing may fire");
}
