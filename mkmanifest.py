#!/usr/bin/env python3
"""Regenerates MANIFEST.json from vx/propinfo.py (so the manifest is always valid and current)."""
import json, os, sys
ROOT = os.path.dirname(os.path.abspath(__file__))
sys.path.insert(0, os.path.join(ROOT, 'vx'))
import propinfo
props = [json.loads(l) for l in open(os.path.join(ROOT, 'properties.jsonl'))]
checks = []
na = []
for p in props:
    pid = p['id']
    info = propinfo.INFO[pid]
    if pid in propinfo.CLAIMED:
        checks.append({
            'property_id': pid,
            'quick_cmd': './check %s --tier quick' % pid,
            'thorough_cmd': './check %s --tier thorough' % pid,
            'evidence_file': '/verif/evidence/%s.json' % pid,
            'replay_cmd_template': './check %s --replay {path}' % pid,
            'engine': 'vx+kx',
            'level_claimed': {'category': 'proof', 'text': info['claim'], 'design_ref': 'DESIGN.md section 4, %s' % pid},
            'level_note': 'Trusted: ' + '; '.join(list(info.get('trusted', [])) + ['prelude stand-ins for std/polling (assumed contracts, listed in evidence.trusted_base)', 'extractor + fidelity gate', 'Verus/Z3, Kani/CBMC']) +
                          '. Not covered (unverified surroundings): ' + '; '.join(info.get('not_covered', [])),
            'technique': info.get('technique', 'contract-based deductive verification: Verus requires/ensures/invariants on mechanically extracted real functions; Kani loop-free full-domain leaf harnesses'),
        })
    else:
        na.append({'property_id': pid, 'reason': info.get('na_reason', 'not applicable')})
m = {
    'version': 1,
    'setup_cmd': 'true',
    'hooks': {
        'guard': 'cfg(kani)',
        'enable': 'Verus units read /repo/src text directly (no hook). Kani in-crate harnesses: `cargo kani` sets cfg(kani), which compiles `mod verif_kani` in src/lib.rs (includes $CALLOOP_VERIF_DIR/kx/incrate/harness.rs) and `mod verif_kani` in src/sys.rs (includes $CALLOOP_VERIF_DIR/kx/incrate/sys_harness.rs, to reach the private cvt_interest/cvt_mode) and `mod verif_kani` in src/loop_logic.rs (includes $CALLOOP_VERIF_DIR/kx/incrate/loop_harness.rs, to reach the private fields of EventIterator); nothing else in /repo is guarded',
        'baseline_off_cmd': 'cd /repo && cargo test --workspace --no-fail-fast --offline',
        'source_commits': propinfo.HOOK_COMMITS if hasattr(propinfo, 'HOOK_COMMITS') else [],
        'add_only': True,
    },
    'engines': [
        {'name': 'vx', 'path': 'vx/', 'serves_properties': propinfo.CLAIMED, 'kind_free_text': 'Verus on real functions extracted mechanically on every run (extract.py + gate.py), contracts in vx/mods/*.rs'},
        {'name': 'kx', 'path': 'kx/', 'serves_properties': ['C01', 'C02', 'C06', 'C09', 'C14', 'C15', 'C16', 'C18', 'C20'], 'kind_free_text': 'Kani harnesses on the real crate: loop-free full-domain leaf harnesses (complete) and bounded twins of EventIterator::next and TransientSource (bounded, not counted as proved), native replay of counterexamples (cargo kani playback)'},
    ],
    'checks': checks,
    'not_applicable': na,
    'notes': 'exit 2 = undecided (lost anchor / unsupported construct / resource limit); never printed as a violation.',
}
json.dump(m, open(os.path.join(ROOT, 'MANIFEST.json'), 'w'), indent=1)
print('MANIFEST: %d checks, %d not_applicable' % (len(checks), len(na)))
