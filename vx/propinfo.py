"""Static per-property text used in evidence files and MANIFEST generation (DESIGN section 4)."""

TRUSTED_COMMON = [
    'Verus 0.2026.09.13 (single-file mode) + bundled Z3; rustc 1.98.1 front end',
    'vx/extract.py + vx/gate.py: extraction rules D1-D6, R1-R5, S1, A1 of DESIGN 2.1; the gate re-derives every extracted item from the generated file and compares it token-by-token with /repo',
    'verified configuration: target_os=linux, 64-bit usize (global size_of usize == 8); other targets unverified',
    'tracing macros trace!/warn! are no-ops (rule D4)',
]
ASSUMPTIONS_COMMON = [
    'machine arithmetic is NOT treated as mathematical: Verus checks overflow in every contracted body',
    'no assume()/admit() in any generated file (scanned on every run)',
]

HOOK_COMMITS = ['63b1378 verif hook: include external Kani harnesses under cfg(kani)']

CLAIMED = ['C01', 'C02', 'C03', 'C04', 'C05', 'C06', 'C07', 'C09', 'C10', 'C11', 'C12', 'C13', 'C14', 'C15', 'C16', 'C17', 'C18', 'C19', 'C20']

INFO = {
 'C20': {
  'claim': 'Unbounded proof (all 2^32 slot ids x 2^16 generations x 2^16 sub-ids) on the verbatim text of src/token.rs and TokenFactory in src/sys.rs: pack/unpack are inverse in both directions, the key is injective, it differs from the poller notify key usize::MAX whenever id < 2^32-1, generation bumps wrap modulo 2^16 and do not return to the start in fewer than 65536 steps, sub-id overflow cannot wrap silently (increment_sub_id has precondition sub_id < 0xFFFF; otherwise the real body panics), the n-th token of a factory has sub_id n and the slot id/generation.',
  'not_covered': ['32-/16-bit targets (cfg-selected constants not extracted)', "polling's own use of the key", 'kernel epoll data field'],
  'assumptions': ['usize is 64 bit'],
  'trusted': ['vstd specification of u32::try_from(usize)/try_into, wrapping_add, checked_add'],
 },
}
INFO.update({
 'C03': {'claim': 'Counter encode/decode of the eventfd ping, for all 2^64 counter values, on the verbatim body of the closure PingSource::process_events passes to its Generic (S1 slice): the callback is callable only if the drained counter contains a ping (no callback without a ping), all pings accumulated in one counter value give one callback, the close marker gives Remove after the outstanding ping was delivered, otherwise Continue. PingSource registration delegates to the proven Generic.',
         'not_covered': ['thread schedules, kernel eventfd atomicity and level-triggered readiness', 'each ping() is followed by a callback (liveness)', 'send_ping / Ping::ping / FlagOnDrop (rustix write)'], 'trusted': ['drain_ping returns the kernel counter (assumed, signature-only)']},
 'C04': {'claim': 'Forwarding logic of the channel source on the verbatim text (S1 slices of Channel::process_events): the callback is callable only with a message try_recv has just handed out and with Closed only after the queue reported disconnection; Closed is followed by Remove; every wake-up makes at least one receive attempt (also for capacity 0); when the batch limit is hit with work remaining the channel re-arms its own wake-up (must-call witness on the eventfd write); Sender/SyncSender wake the loop after a successful enqueue.',
         'not_covered': ['std::sync::mpsc semantics (exactly-once, FIFO per sender, disconnection)', 'thread schedules', 'field drop order of Sender (queue handle before the wake-on-drop guard)', 'blocking SyncSender::send liveness'], 'trusted': ['mpsc try_recv/send witnesses (assumed)', 'rustix write stand-in']},
 'C17': {'claim': 'Loop-side mechanics of the Async adapter on the verbatim text (io.rs; S1 slices with R10 cell parameters): an event records the readiness and wakes exactly the stored waker (taken out of its slot); a poll that hit WouldBlock stores waker and interest before the one-shot registration is re-armed with exactly that interest under the adapter token; set_nonblocking reports the previous mode, installs the requested one and touches no other flag; Drop (hence into_inner) and a failed adapt_io put O_NONBLOCK back to the recorded previous mode and take the adapter out of the loop.',
         'not_covered': ['byte-exactness of reads/writes (kernel socket semantics)', 'Readable/Writable/AsyncRead/AsyncWrite poll functions (Pin/Context, feature futures-io)', 'waker scheduling, task completion (liveness)', 'Async::new before the registration step (unsizing coercion unsupported by Verus)'], 'trusted': ['rustix::fs fcntl stand-ins', 'Waker::wake witness']},
 'C10': {'claim': 'Wake/drain protocol and result hand-over of the executor source on the verbatim text (S1 slices of futures.rs): a waker that has enqueued a runnable writes the eventfd only if its swap found the notified flag clear, and then has written it; the executor may drain its queue only after it has cleared that flag; a result reaches the callback only after it has been taken out of the task table (not Clone: exactly once); the clear-readiness flag is set only when the queue had nothing more to give; a batch that was cut short re-arms the executor\'s own wake-up.',
         'not_covered': ['thread schedules and atomic orderings', 'async_task internals (poll/drop on the loop thread)', 'the enqueue itself (Mutex<mpsc::Sender>)', 'Scheduler::schedule, Executor::drop', 'StreamSource (Pin/Context)'], 'trusted': ['slab::Slab as a finite map (assumed)', 'atomic store/swap witnesses through identity stand-ins (R19)']},
 'C11': {'claim': 'Sequential content of the stop/wake-up mechanisms on the verbatim text: run() returns Ok only after having read the stop flag as raised (and forwards every dispatch error); LoopSignal::stop() has raised that flag when it returns; LoopSignal::wakeup() / Notifier::notify() have called the poller\'s notify; a synthetic-event-free dispatch waits with exactly the caller\'s timeout (see C12/C14 slice).',
         'not_covered': ['that a poller notification issued before the wait makes the next wait return (sticky notification: polling/kernel behaviour)', 'memory ordering between stop() and the loop thread', 'block_on (feature block_on: Pin/Context/Waker)', 'at most one more iteration after stop (timing)'], 'trusted': ['atomic load/store witnesses through identity stand-ins (R19)', 'frame: dispatch_events/dispatch_idles do not replace the shared Signals object (assumed on the two signature-only callees)']},
 'C19': {'claim': 'Signal-mask bookkeeping of the Signals source on the verbatim text (feature signals; not part of the baseline build, verified on the source text): after a successful new / add_signals / remove_signals / set_signals the tracked set is exactly the requested set algebra (over slices of any length), the signalfd reports exactly the tracked set, and the corresponding sets have been blocked / unblocked for the thread (must-call witnesses); Drop asks to unblock exactly the tracked set; the callback is callable only with a signal instance that has just been read from the signalfd (consumed by the read: once), the descriptor is drained until it reports nothing pending; registered READ / Level.',
         'not_covered': ["the thread's blocked set and signal delivery themselves (process/kernel state)", 'calloop Signal enum and its as_nix/from_num mapping (generated by a macro: stand-in, assumed number-preserving)', 'Event accessors (macro-generated)', 'F8: set_signals transiently unblocks signals present in both sets', 'state after an Err return (documented: mask may have changed)'], 'trusted': ['nix SigSet as a set of numbers, SignalFd mask view (assumed)']},
 'C13': {'claim': 'Slot semantics of idle callbacks: cancel() empties the slot; dispatch() never calls anything on an empty slot and leaves it empty.',
         'not_covered': ['insert_idle FnOnce wrapper (closure mutating captured state)', 'dispatch_idles take-then-run, ordering, idle inserted by idle'], 'trusted': []},
 'C18': {'claim': 'Whole TransientSource state machine on the verbatim text (rewrites R1-R3, R6, R8): for every state x {process_events with any child result, remove, replace, map, register, reregister, unregister}, any child obeying the registration protocol and any parent whose register/unregister alternate, the state invariant (child registered exactly when it is the current kept child of a registered parent) is preserved, the child protocol preconditions hold at all 14 call sites, a child is dropped only when unregistered, events are forwarded only from the kept child, only Continue/Reregister are returned. Three obligations fail on the real code (known findings F6a/b/d).',
         'not_covered': ['Box<T>/&mut T blanket impls', 'failure of the NEW child registration inside Replace (documented hole)'], 'trusted': ['mem::take spec', 'EventSource protocol assumed for the child type parameter']},
 'C16': {'claim': 'Generic side: token/poller recorded only after successful registration, cleared by unregister, unchanged on Err; callback only for the registered token; cvt_interest/cvt_mode exact.',
         'not_covered': ['kernel epoll table', 'Poll::{register,reregister,unregister}', 'Async adapter'], 'trusted': []},
 'C05': {'claim': 'Timer heap and per-timer contracts, unbounded: next_expired returns only entries with deadline <= now, always an earliest one, and removes exactly it; cancel removes every entry of the counter (given one entry per counter) and never touches other timers; the callback is reachable only for the timer own current arming and only with its current deadline; Drop => Remove, ToInstant(i) => deadline i; reregister == unregister;register.',
         'not_covered': ['cross-timer histories through the shared Rc<RefCell<TimerWheel>> (uniq across dispatches, F5)', 'Poll::poll loop (see C02/C12 slices)'], 'trusted': ['BinaryHeap root is a cmp-maximal element; Instant order = integer nanoseconds']},
 'C02': {'claim': 'Interest/mode translation exact (cvt_interest/cvt_mode, all combinations); every due timer is returned by next_expired.', 'not_covered': ['dispatch_events loop'], 'trusted': []},
 'C12': {'claim': 'next_deadline is the true minimum deadline or None iff the heap is empty.', 'not_covered': ['Poller::wait'], 'trusted': []},
 'C07': {'claim': 'Source side of disable: after unregister a Timer has no arming and its process_events cannot reach the callback; DispatcherInner::unregister defers (touches nothing) when the source is borrowed.', 'not_covered': ['LoopHandle::{disable,enable}'], 'trusted': []},
 'C09': {'claim': 'PostAction algebra proved for all 16 pairs on the verbatim BitOr/BitOrAssign impls (a|b == a if a==b else Reregister; |= agrees).',
         'not_covered': ['application of the post-action in EventLoop::dispatch_events (loop-global Cell behind &self)'], 'trusted': []},
 'C14': {'claim': 'The additional-lifecycle set stays duplicate-free and only ever gains the registering source\'s own token under every outcome of DispatcherInner::{register,reregister,unregister} (both values of the opaque needs_additional_lifecycle_events flag, both outcomes of try_borrow_mut, Ok and Err of the wrapped source).',
         'not_covered': ['the before_sleep/before_handle_events loops of dispatch_events'], 'trusted': ['Vec::retain, slice::contains specs']},
 'C15': {'claim': 'Per-layer error frames: DispatcherInner::register leaves the lifecycle set unchanged on Err; vacant_entry hands out a vacant slot and frames all others.',
         'not_covered': ['LoopHandle::register_dispatcher cleanup, Async::new'], 'trusted': []},
 'C01': {'claim': 'Generation-checked slot lookup (get/get_mut iff-contracts), generation bump on reuse, stale-token lemma, sub-token allocation.',
         'not_covered': ['dispatch_events routing'], 'trusted': []},
 'C06': {'claim': 'Stale tokens are dead for fewer than 65536 reuses; get_mut/vacant_entry frame all other slots; unregister removes exactly the token.',
         'not_covered': ['Rc release counts'], 'trusted': []},
})
for _p in ['C01','C02','C03','C04','C05','C06','C07','C08','C09','C10','C11','C12','C13','C14','C15','C16','C17','C18','C19']:
    INFO.setdefault(_p, {'claim': '', 'na_reason': 'not yet built'})
