"""Minimal Rust lexer + item locator used by the extractor and (independently) by the fidelity gate.

Only what is needed to cut items out of calloop's sources *verbatim*:
  * tokens with byte spans; comments and whitespace are trivia
  * bracket matching
  * splitting a token range into items (attrs + header + body/semicolon)
  * a tiny #[cfg(..)] evaluator for the verified configuration
"""
import re

IDENT_START = re.compile(r'[A-Za-z_]')
IDENT_RE = re.compile(r'[A-Za-z_][A-Za-z0-9_]*')
NUM_RE = re.compile(r'[0-9][0-9A-Za-z_]*(\.[0-9][0-9A-Za-z_]*)?')
PUNCT3 = ('<<=', '>>=', '...', '..=')
PUNCT2 = ('::', '->', '=>', '==', '!=', '<=', '>=', '&&', '||', '+=', '-=', '*=', '/=', '%=', '^=',
          '&=', '|=', '<<', '>>', '..')


class Tok:
    __slots__ = ('kind', 'text', 'start', 'end')

    def __init__(self, kind, text, start, end):
        self.kind = kind      # 'id', 'num', 'str', 'char', 'life', 'p' (punct), 'com', 'ws'
        self.text = text
        self.start = start
        self.end = end

    def __repr__(self):
        return 'Tok(%s,%r,%d)' % (self.kind, self.text, self.start)


class LexError(Exception):
    pass


def lex(src):
    """Return the full token list (including trivia)."""
    toks = []
    i = 0
    n = len(src)
    while i < n:
        c = src[i]
        if c in ' \t\r\n':
            j = i + 1
            while j < n and src[j] in ' \t\r\n':
                j += 1
            toks.append(Tok('ws', src[i:j], i, j))
            i = j
            continue
        if src.startswith('//', i):
            j = src.find('\n', i)
            if j < 0:
                j = n
            toks.append(Tok('com', src[i:j], i, j))
            i = j
            continue
        if src.startswith('/*', i):
            depth = 1
            j = i + 2
            while j < n and depth:
                if src.startswith('/*', j):
                    depth += 1
                    j += 2
                elif src.startswith('*/', j):
                    depth -= 1
                    j += 2
                else:
                    j += 1
            if depth:
                raise LexError('unterminated block comment at %d' % i)
            toks.append(Tok('com', src[i:j], i, j))
            i = j
            continue
        # raw strings / byte strings
        m = re.match(r'(b|c)?r(#*)"', src[i:i + 40])
        if m:
            hashes = m.group(2)
            close = '"' + hashes
            j = src.find(close, i + m.end())
            if j < 0:
                raise LexError('unterminated raw string at %d' % i)
            j += len(close)
            toks.append(Tok('str', src[i:j], i, j))
            i = j
            continue
        if c == '"' or (c in 'bc' and i + 1 < n and src[i + 1] == '"'):
            j = i + (1 if c == '"' else 2)
            while j < n and src[j] != '"':
                if src[j] == '\\':
                    j += 1
                j += 1
            if j >= n:
                raise LexError('unterminated string at %d' % i)
            j += 1
            toks.append(Tok('str', src[i:j], i, j))
            i = j
            continue
        if c == "'" or (c == 'b' and i + 1 < n and src[i + 1] == "'"):
            k = i + (1 if c == "'" else 2)
            # char literal or lifetime
            if c == "'" and k < n and IDENT_START.match(src[k]) and not (k + 1 < n and src[k + 1] == "'"):
                m = IDENT_RE.match(src, k)
                j = m.end()
                toks.append(Tok('life', src[i:j], i, j))
                i = j
                continue
            j = k
            if src[j] == '\\':
                j += 2
                while j < n and src[j] != "'":
                    j += 1
            else:
                j += 1
            if j >= n or src[j] != "'":
                raise LexError('bad char literal at %d' % i)
            j += 1
            toks.append(Tok('char', src[i:j], i, j))
            i = j
            continue
        if IDENT_START.match(c):
            m = IDENT_RE.match(src, i)
            j = m.end()
            # raw identifiers r#foo
            if src[i:j] == 'r' and src.startswith('#', j) and j + 1 < n and IDENT_START.match(src[j + 1]):
                m = IDENT_RE.match(src, j + 1)
                j = m.end()
            toks.append(Tok('id', src[i:j], i, j))
            i = j
            continue
        if c.isdigit():
            m = NUM_RE.match(src, i)
            j = m.end()
            # do not swallow `1..2` or `1.method()`
            txt = src[i:j]
            if '.' in txt:
                dot = txt.index('.')
                # keep float only if followed by digit (NUM_RE guarantees) - fine
            toks.append(Tok('num', src[i:j], i, j))
            i = j
            continue
        for p in PUNCT3:
            if src.startswith(p, i):
                toks.append(Tok('p', p, i, i + 3))
                i += 3
                break
        else:
            for p in PUNCT2:
                if src.startswith(p, i):
                    toks.append(Tok('p', p, i, i + 2))
                    i += 2
                    break
            else:
                toks.append(Tok('p', c, i, i + 1))
                i += 1
    return toks


def sig(toks):
    """Significant tokens only."""
    return [t for t in toks if t.kind not in ('ws', 'com')]


def sig_texts(src):
    """Token texts of src without trivia; `>>`/`<<`-style glued puncts are split to single chars so
    that differences in gluing (e.g. `> >` vs `>>`) do not matter."""
    out = []
    for t in sig(lex(src)):
        if t.kind == 'p' and len(t.text) > 1:
            out.extend(list(t.text))
        else:
            out.append(t.text)
    return out


OPEN = {'(': ')', '[': ']', '{': '}'}
CLOSE = {')', ']', '}'}


def match_brackets(st):
    """st: significant tokens. Returns dict index->matching index."""
    stack = []
    m = {}
    for i, t in enumerate(st):
        if t.kind != 'p':
            continue
        if t.text in OPEN:
            stack.append(i)
        elif t.text in CLOSE:
            if not stack:
                raise LexError('unbalanced close at byte %d' % t.start)
            j = stack.pop()
            if OPEN[st[j].text] != t.text:
                raise LexError('mismatched bracket at byte %d' % t.start)
            m[j] = i
            m[i] = j
    if stack:
        raise LexError('unbalanced open at byte %d' % st[stack[-1]].start)
    return m


ITEM_KW = {'fn', 'struct', 'enum', 'impl', 'trait', 'mod', 'const', 'static', 'type', 'use', 'union',
           'macro_rules', 'extern'}
BRACE_ITEMS = {'fn', 'struct', 'enum', 'impl', 'trait', 'mod', 'union', 'macro_rules', 'extern'}


class Item:
    """One item in a token range: attrs (list of (start_idx,end_idx) in st), header, body."""

    def __init__(self):
        self.attrs = []        # list of (i0, i1) inclusive indices of each `#[..]` in st
        self.first = None      # index of first token (attr or header)
        self.hdr = None        # index of first header token (after attrs)
        self.kw = None         # item keyword
        self.name = None
        self.body_open = None  # index of `{` (brace items) or None
        self.last = None       # index of last token (`}` or `;`)

    def __repr__(self):
        return 'Item(%s %s)' % (self.kw, self.name)


def split_items(st, m, lo, hi):
    """Split st[lo:hi] (a module or impl/trait body, without the enclosing braces) into items."""
    items = []
    i = lo
    while i < hi:
        it = Item()
        it.first = i
        # attributes
        while i < hi and st[i].text == '#':
            j = i + 1
            if st[j].text == '!':
                j += 1
            if st[j].text != '[':
                raise LexError('bad attribute at byte %d' % st[i].start)
            e = m[j]
            it.attrs.append((i, e))
            i = e + 1
        if i >= hi:
            break
        it.hdr = i
        # item-level macro invocation `name! { .. }` / `name!( .. );` (e.g. define_signal_enum!): an item of its own
        if st[i].kind == 'id' and st[i].text != 'macro_rules' and i + 2 < hi and st[i + 1].text == '!' and st[i + 2].text in OPEN:
            it.kw = 'macrocall'
            it.name = st[i].text
            it.kwidx = i
            end = m[i + 2]
            if end + 1 < hi and st[end + 1].text == ';':
                end += 1
            it.last = end
            items.append(it)
            i = end + 1
            continue
        # find keyword
        k = i
        while k < hi and not (st[k].kind == 'id' and st[k].text in ITEM_KW):
            if st[k].text in OPEN:      # pub(crate)
                k = m[k] + 1
                continue
            k += 1
        if k >= hi:
            raise LexError('no item keyword after byte %d' % st[i].start)
        kw = st[k].text
        # `const fn`, `unsafe fn`, `extern "C" fn`, `unsafe impl`
        if kw in ('const', 'extern') :
            k2 = k + 1
            while k2 < hi and (st[k2].kind == 'str' or st[k2].text in ('unsafe', 'async', 'extern')):
                k2 += 1
            if k2 < hi and st[k2].text == 'fn':
                k = k2
                kw = 'fn'
        it.kw = kw
        if kw == 'impl':
            it.name = None
        elif kw == 'macro_rules':
            it.name = st[k + 2].text
        elif kw == 'use':
            it.name = None
        else:
            it.name = st[k + 1].text if k + 1 < hi else None
        # find end
        j = k + 1
        end = None
        while j < hi:
            t = st[j]
            if t.text == ';':
                end = j
                break
            if t.text == '{':
                if kw in BRACE_ITEMS:
                    it.body_open = j
                    end = m[j]
                    break
                j = m[j] + 1
                continue
            if t.text in ('(', '['):
                j = m[j] + 1
                continue
            j += 1
        if end is None:
            raise LexError('unterminated item at byte %d' % st[i].start)
        # tuple struct `struct X(..);` handled by ';' ; `struct X {..}` by brace
        it.last = end
        it.kwidx = k
        items.append(it)
        i = end + 1
    return items


def header_texts(st, it):
    end = it.body_open if it.body_open is not None else it.last
    return [t.text for t in st[it.hdr:end]]


def impl_selector_texts(st, m, it):
    """Tokens of an impl header after `impl<generics>` up to `where` / `{`."""
    k = it.kwidx + 1
    end = it.body_open
    if st[k].text == '<':
        depth = 0
        while k < end:
            tx = st[k].text
            if tx == '<':
                depth += 1
            elif tx == '>':
                depth -= 1
            elif tx == '>>':
                depth -= 2
            elif tx == '->':
                pass
            k += 1
            if depth <= 0:
                break
    out = []
    while k < end and st[k].text != 'where':
        out.append(st[k].text)
        k += 1
    return out


def norm_sel(s):
    out = []
    for t in sig(lex(s)):
        if t.kind == 'p' and len(t.text) > 1 and set(t.text) <= set('<>'):
            out.extend(list(t.text))
        else:
            out.append(t.text)
    return out


def split_angle(texts):
    out = []
    for t in texts:
        if len(t) > 1 and set(t) <= set('<>'):
            out.extend(list(t))
        else:
            out.append(t)
    return out


# ---------------------------------------------------------------- cfg evaluation

DEFAULT_CFG = {
    'flags': {'unix'},
    'kv': {('target_os', 'linux'), ('target_pointer_width', '64'), ('target_family', 'unix'),
           ('feature', 'executor'), ('feature', 'signals'), ('feature', 'stream'), ('feature', 'block_on'), ('feature', 'futures-io')},
}


def eval_cfg_tokens(ts, cfg=DEFAULT_CFG):
    """ts: list of token texts of the cfg predicate (inside `cfg( .. )`)."""
    pos = [0]

    def parse():
        t = ts[pos[0]]
        pos[0] += 1
        if t in ('all', 'any', 'not') and pos[0] < len(ts) and ts[pos[0]] == '(':
            pos[0] += 1
            args = []
            while ts[pos[0]] != ')':
                args.append(parse())
                if ts[pos[0]] == ',':
                    pos[0] += 1
            pos[0] += 1
            if t == 'all':
                return all(args)
            if t == 'any':
                return any(args)
            return not args[0]
        if pos[0] < len(ts) and ts[pos[0]] == '=':
            v = ts[pos[0] + 1]
            pos[0] += 2
            return (t, v.strip('"')) in cfg['kv']
        return t in cfg['flags']

    return parse()


def attr_kind(st, a):
    """Classify attribute st[a[0]..a[1]]: returns (name, predicate_value_or_None)."""
    i0, i1 = a
    j = i0 + 1
    if st[j].text == '!':
        j += 1
    name = st[j + 1].text
    if name == 'cfg':
        inner = [t.text for t in st[j + 3:i1 - 1]]
        return 'cfg', eval_cfg_tokens(inner)
    return name, None
