#!/usr/bin/env python3
"""Mechanical extractor: cuts real calloop items out of /repo/src verbatim, splices contracts from
fragment templates (vx/mods/*.rs) and writes one Verus file per unit (vx/units/*.unit).

Fragment directive language (lines starting with `//@`):

  //@ region NAME props=C01,C20
        hand written ghost text (spec fns, lemmas, stand-ins) up to the next directive;
        errors inside are attributed to NAME / props
  //@ item FILE / SEL [/ SEL]  [props=..] [ret=r] [sigonly] [name=..]
  //@   pre            lines inserted before the item (verifier attributes)
  //@   spec           lines inserted between signature and body
  //@   entry          lines inserted at the start of the body
  //@   loop N         lines inserted between the N-th loop head and its body
  //@   closure N      lines inserted after the parameter list of the N-th closure literal; body gets braces
  //@   exit           lines inserted at the end of the body (before the closing brace) -- ghost only
  //@   rw TAG N <<orig>> => <<new>>      token-level rewrite (must match exactly N times)
  //@   slice NAME(params) -> ret ; from <<first stmt tokens>> to <<last stmt tokens>>   (rule S1)
  //@ enditem
  //@ open FILE / impl SEL     emits the real impl header (+ `{`)
  //@ close                    emits `}`

Everything the splicer inserts is bracketed by marker comments so that the fidelity gate (gate.py)
can undo it from the *generated file alone* and compare the remainder, token by token, with /repo:
    /*+*/ inserted text /*-*/
    /*~TAG:base64(original text)~*/ replacement /*~~*/
    /*@B file start end path*/ item /*@E*/
"""
import base64
import json
import os
import re
import sys

sys.path.insert(0, os.path.dirname(os.path.abspath(__file__)))
from rustlex import (lex, sig, match_brackets, split_items, impl_selector_texts, split_angle, norm_sel,
                     attr_kind, eval_cfg_tokens, LexError, OPEN)

REPO = os.environ.get('CALLOOP_REPO', '/repo')
VX = os.path.dirname(os.path.abspath(__file__))


class ExtractError(Exception):
    """Lost anchor / shape change: the unit is undecided (exit 2), never a violation."""


class SrcFile:
    cache = {}

    def __init__(self, rel):
        self.rel = rel
        path = os.path.join(REPO, rel)
        try:
            self.src = open(path, encoding='utf-8').read()
        except OSError as e:
            raise ExtractError('cannot read %s: %s' % (path, e))
        try:
            self.st = sig(lex(self.src))
            self.m = match_brackets(self.st)
        except LexError as e:
            raise ExtractError('%s: %s' % (rel, e))

    @classmethod
    def get(cls, rel):
        if rel not in cls.cache:
            cls.cache[rel] = SrcFile(rel)
        return cls.cache[rel]


def cfg_ok(sf, it):
    for a in it.attrs:
        name, val = attr_kind(sf.st, a)
        if name == 'cfg' and val is False:
            return False
    return True


def nested_items(sf, lo, hi):
    """Items declared inside a function body st[lo:hi]: at depth 0, right after `{` (start), `;` or `}`, a token sequence
    (after attributes) starting with `struct` / `enum` / `impl` / `fn` / `const` / `type` / `trait`."""
    st, m = sf.st, sf.m
    out = []
    i = lo
    at_start = True
    while i < hi:
        tx = st[i].text
        if at_start:
            k = i
            while k < hi and st[k].text == '#' and st[k + 1].text == '[':
                k = m[k + 1] + 1
            if k < hi and st[k].kind == 'id' and st[k].text in ('struct', 'enum', 'impl', 'fn', 'trait'):
                # end of this item: the matching brace of its first `{` outside (..)/[..], or a `;` before any `{`
                j = k + 1
                end = None
                while j < hi:
                    if st[j].text in ('(', '['):
                        j = m[j] + 1
                        continue
                    if st[j].text == '{':
                        end = m[j]
                        break
                    if st[j].text == ';':
                        end = j
                        break
                    j += 1
                if end is not None:
                    try:
                        out.extend(split_items(st, m, i, end + 1))
                    except LexError:
                        pass
                    i = end + 1
                    at_start = True
                    continue
        if tx in OPEN:
            i = m[i] + 1
            at_start = (tx == '{')
            continue
        at_start = tx == ';'
        i += 1
    return out


def find_item(sf, lo, hi, sel):
    """sel: 'fn NAME' | 'struct NAME' | ... | 'impl <selector>'"""
    sel = sel.strip()
    try:
        items = [it for it in split_items(sf.st, sf.m, lo, hi) if cfg_ok(sf, it)]
    except LexError as e:
        # not an item list: a function body (statements). Items nested in a function body (`struct`/`impl`/`fn` declared
        # between the statements) can still be addressed: they start at a statement boundary with an item keyword
        items = [it for it in nested_items(sf, lo, hi) if cfg_ok(sf, it)]
        if not items:
            raise ExtractError('%s: %s' % (sf.rel, e))
    kw, _, rest = sel.partition(' ')
    found = []
    if kw == 'impl':
        want = norm_sel(rest)
        for it in items:
            if it.kw == 'impl' and split_angle(impl_selector_texts(sf.st, sf.m, it)) == want:
                found.append(it)
    else:
        for it in items:
            if it.kw == kw and it.name == rest.strip():
                found.append(it)
    if len(found) != 1:
        raise ExtractError('%s: selector `%s` matches %d items (anchor lost)' % (sf.rel, sel, len(found)))
    return found[0]


def locate(path):
    """path: 'src/x.rs / impl Foo / fn bar' -> (SrcFile, [Item chain])"""
    parts = [p.strip() for p in path.split(' / ')]
    sf = SrcFile.get(parts[0])
    lo, hi = 0, len(sf.st)
    chain = []
    for sel in parts[1:]:
        it = find_item(sf, lo, hi, sel)
        chain.append(it)
        if it.body_open is not None:
            lo, hi = it.body_open + 1, it.last
    return sf, chain


def b64(s):
    return base64.b64encode(s.encode()).decode()


class Edits:
    """Edits over a byte span of the real source; rendering adds the marker comments."""

    def __init__(self, sf, start, end):
        self.sf = sf
        self.start = start
        self.end = end
        self.ed = []   # (pos, dellen, text, tag or None, seq)

    def ins(self, pos, text):
        self.ed.append((pos, 0, text, None, len(self.ed)))

    def rw(self, pos, end, text, tag):
        self.ed.append((pos, end - pos, text, tag, len(self.ed)))

    def render(self):
        src = self.sf.src
        out = []
        cur = self.start
        # stable: by position, insertions before replacements at same pos, then sequence
        for pos, dl, text, tag, seq in sorted(self.ed, key=lambda e: (e[0], 0 if e[1] == 0 else 1, e[4])):
            if pos < cur:
                raise ExtractError('overlapping edits in %s at byte %d' % (self.sf.rel, pos))
            out.append(src[cur:pos])
            if tag is None:
                out.append('/*+*/' + text + '/*-*/')
            else:
                out.append('/*~%s:%s~*/' % (tag, b64(src[pos:pos + dl])) + text + '/*~~*/')
            cur = pos + dl
        out.append(src[cur:self.end])
        return ''.join(out)


DROP_ATTRS = {'inline', 'cfg_attr', 'allow', 'doc', 'must_use', 'cfg'}
DROP_DERIVES = True


def tok_index_range(sf, i0, i1):
    return sf.st[i0].start, sf.st[i1].end


def handle_attrs(sf, ed, it, keep_derive=True):
    for a in it.attrs:
        name, val = attr_kind(sf.st, a)
        s, e = tok_index_range(sf, a[0], a[1])
        if name in DROP_ATTRS:
            ed.rw(s, e, '', 'D3' if name == 'cfg' else 'D2')
        elif name == 'derive':
            if not keep_derive:
                ed.rw(s, e, '', 'D2')
        else:
            raise ExtractError('%s: unexpected attribute #[%s] at byte %d' % (sf.rel, name, s))


def inner_cfgs(sf, ed, lo, hi):
    """Handle #[cfg(..)]/#[inline]/.. attributes on statements, expressions and parameters inside
    st[lo:hi] (rule D3/D2)."""
    st, m = sf.st, sf.m
    i = lo
    while i < hi:
        if st[i].text == '#' and i + 1 < hi and st[i + 1].text == '[':
            e = m[i + 1]
            name, val = attr_kind(st, (i, e))
            s0, e0 = tok_index_range(sf, i, e)
            if name == 'cfg':
                if val:
                    ed.rw(s0, e0, '', 'D3')
                    i = e + 1
                else:
                    # delete attr + the thing it decorates
                    j = e + 1
                    if st[j].text == '{':
                        last = m[j]
                    else:
                        k = j
                        while True:
                            tx = st[k].text
                            if tx in OPEN:
                                k = m[k] + 1
                                continue
                            if tx in (',', ')', ';', '}'):
                                break
                            k += 1
                        last = k if st[k].text in (',', ';') else k - 1
                    ed.rw(s0, st[last].end, '', 'D3')
                    i = last + 1
                continue
            elif name in DROP_ATTRS:
                ed.rw(s0, e0, '', 'D2')
                i = e + 1
                continue
        i += 1


def attach_loops(sf, ed, spec, lo, hi, what, used=None, check=True):
    """Insert the loop sections of the overlay at the loops of st[lo:hi]: `loop N` by ordinal, `loop <<head>>` by the
    tokens the loop head starts with. Every loop of the range needs a section and vice versa (else: shape change)."""
    st = sf.st
    loops = find_loops(sf, lo, hi)
    by_ord = sorted(k[1] for k in spec.sections if isinstance(k, tuple) and k[0] == 'loop')
    by_txt = [k for k in spec.sections if isinstance(k, tuple) and k[0] == 'loopt']
    if check and len(loops) != len(by_ord) + len(by_txt):
        raise ExtractError('%s: range has %d loops, overlay has invariants for %d (shape change)' % (what, len(loops), len(by_ord) + len(by_txt)))
    taken = set()
    for key in by_txt:
        texts = plain_texts(key[1])
        hits = [i for i, (kw, bo) in enumerate(loops) if [t.text for t in st[kw:kw + len(texts)]] == texts]
        if len(hits) != 1:
            raise ExtractError('%s: loop head `%s` matches %d loops (anchor lost)' % (what, key[1], len(hits)))
        taken.add(hits[0])
        ed.ins(st[loops[hits[0]][1]].start, '\n' + spec.sections[key] + '\n')
        if used is not None:
            used.add(key)
    rest = [lp for i, lp in enumerate(loops) if i not in taken] if by_txt else loops
    for n in by_ord:
        if n < 1 or n > len(rest):
            raise ExtractError('%s: loop %d not found' % (what, n))
        ed.ins(st[rest[n - 1][1]].start, '\n' + spec.sections[('loop', n)] + '\n')
        if used is not None:
            used.add(('loop', n))


def find_loops(sf, lo, hi):
    """Indices (kw_idx, body_open_idx) of loops in st[lo:hi] in textual order."""
    st, m = sf.st, sf.m
    out = []
    for i in range(lo, hi):
        t = st[i]
        if t.kind == 'id' and t.text in ('while', 'for', 'loop'):
            if t.text == 'for' and st[i + 1].text == '<':
                continue
            j = i + 1
            while j < hi and st[j].text != '{':
                if st[j].text in ('(', '['):
                    j = m[j] + 1
                else:
                    j += 1
            if j >= hi:
                raise ExtractError('loop without body at byte %d' % t.start)
            out.append((i, j))
    return out


CLOSURE_PREV = {'(', ',', '=', '{', ';', 'return', '=>', 'move', '[', '&&', '||x'}


def find_closures(sf, lo, hi):
    """(params_open_idx, params_close_idx, body_first_idx, body_last_idx, is_block) per closure literal."""
    st, m = sf.st, sf.m
    out = []
    i = lo
    while i < hi:
        t = st[i]
        if t.kind == 'p' and t.text in ('|', '||') and st[i - 1].text in CLOSURE_PREV:
            if t.text == '||':
                pc = i
            else:
                pc = i + 1
                while st[pc].text != '|':
                    if st[pc].text in OPEN:
                        pc = m[pc] + 1
                    else:
                        pc += 1
            b = pc + 1
            if st[b].text == '->':
                # explicit return type: body must be a block
                while st[b].text != '{':
                    b += 1
            if st[b].text == '{':
                out.append((i, pc, b, m[b], True))
            else:
                k = b
                while k < hi:
                    tx = st[k].text
                    if tx in OPEN:
                        k = m[k] + 1
                        continue
                    if tx in (',', ')', ';', '}', ']'):
                        break
                    k += 1
                out.append((i, pc, b, k - 1, False))
            i = pc + 1
            continue
        i += 1
    return out


def place_ghost_at_anchors(sf, ed, spec, lo, hi, used):
    """`//@ after <<tokens>>` / `//@ before <<tokens>>`: ghost text (assert / let ghost) placed after the end of,
    or before the start of, the statement that contains the (unique) token sequence. Lost anchor => undecided."""
    st, m = sf.st, sf.m
    for key in list(spec.sections):
        if isinstance(key, tuple) and key[0] in ('atloopstart', 'atloopend', 'afterloop'):
            # ghost text at the very start / end of the body of the loop whose head starts with the tokens (independent of
            # what the body looks like)
            texts = plain_texts(key[1])
            hits = [(kw, bo) for (kw, bo) in find_loops(sf, lo, hi) if [t.text for t in st[kw:kw + len(texts)]] == texts]
            if len(hits) != 1:
                raise ExtractError('%s: loop anchor `%s` matches %d loops (anchor lost)' % (spec.path, key[1], len(hits)))
            bo = hits[0][1]
            if key[0] == 'atloopstart':
                ed.ins(st[bo].end, '\n' + spec.sections[key] + '\n')
            elif key[0] == 'atloopend':
                ed.ins(st[m[bo]].start, '\n' + spec.sections[key] + '\n')
            else:
                ed.ins(st[m[bo]].end, '\n' + spec.sections[key] + '\n')
            used.add(key)
            continue
        if not (isinstance(key, tuple) and key[0] in ('after', 'before')):
            continue
        texts = plain_texts(key[1])
        hits = find_token_seq(sf, lo, hi, texts)
        if len(hits) != 1:
            raise ExtractError('%s: ghost anchor `%s` matches %d sites (anchor lost)' % (spec.path, key[1], len(hits)))
        h = hits[0]
        if key[0] == 'before':
            # start of the statement that contains the anchor: scan back to the previous `;` / `{` / `}` at the same depth
            k = h - 1
            arm = False
            while k >= lo:
                tx = st[k].text
                if tx in (')', ']'):
                    k = m[k] - 1
                    continue
                if tx in (';', '{', '}'):
                    break
                if tx == '=>':
                    arm = True      # the anchor sits in an expression arm `pat => expr,` of a match
                    break
                k -= 1
            if arm:
                # wrap the arm's expression into a block that starts with the ghost text: `pat => { ghost expr },`
                # (the value of the arm is unchanged)
                e = h
                while e < hi:
                    tx = st[e].text
                    if tx in OPEN:
                        e = m[e] + 1
                        continue
                    if tx in (',', '}'):
                        break
                    e += 1
                ed.ins(st[k + 1].start, '{\n' + spec.sections[key] + '\n')
                ed.ins(st[e - 1].end, ' }')
            else:
                ed.ins(st[k + 1].start, '\n' + spec.sections[key] + '\n')
        else:
            k = h
            while True:
                tx = st[k].text
                if tx in OPEN:
                    k = m[k]
                    if st[k].text == '}' and st[k + 1].text not in (';', '.', '?', 'else', '{'):
                        break
                    k += 1
                    continue
                if tx == ';':
                    break
                if tx in (')', ']', '}'):
                    raise ExtractError('%s: ghost anchor `%s` is a tail expression' % (spec.path, key[1]))
                k += 1
            ed.ins(st[k].end, '\n' + spec.sections[key] + '\n')
        used.add(key)


SIMPLE_TOK = re.compile(r'^([A-Za-z_][A-Za-z0-9_]*|[0-9][0-9A-Za-z_]*|\.|&|\*|::)$')


def annotate_closures(sf, ed, spec, lo, hi, used):
    """Closure postconditions are not inferred by Verus. Hints are keyed by the closure's own token text
    (`//@ closure <<|x| body>>`), so that moving/adding closures does not misplace them; a closure whose body is
    `simple == simple` / `simple != simple` gets `ensures result == (body)` automatically (rule A1)."""
    st = sf.st
    hints = {}
    nhints = {}

    def alpha(texts):
        """(normalised token tuple, [param names]) for a closure literal whose parameters are plain identifiers;
        None otherwise. Lets a hint survive a mere renaming of the closure parameter."""
        if not texts or texts[0] != '|':
            return None
        try:
            pc_ = texts.index('|', 1)
        except ValueError:
            return None
        params = [t for t in texts[1:pc_] if t != ',']
        if not params or not all(IDENT_ONLY.match(t) for t in params) or len(set(params)) != len(params):
            return None
        ren = {n: '$%d' % i for i, n in enumerate(params)}
        out = []
        for k, t in enumerate(texts):
            prev = texts[k - 1] if k else ''
            out.append(ren[t] if (t in ren and prev != '.') else t)
        return tuple(out), params

    for key in spec.sections:
        if isinstance(key, tuple) and key[0] == 'closuret':
            pt = tuple(plain_texts(key[1]))
            hints[pt] = key
            a = alpha(list(pt))
            if a is not None:
                nhints[a[0]] = (key, a[1])
    matched = set()
    unspecified = []    # closures of the range that get no contract (no hint, no derived one)
    for (po, pc, b0, b1, is_block) in find_closures(sf, lo, hi):
        texts = tuple(t.text for t in st[po:b1 + 1])
        key = hints.get(texts)
        hint_text = spec.sections[key] if key is not None else None
        if key is None:
            a = alpha(list(texts))
            if a is not None and a[0] in nhints:
                key, hparams = nhints[a[0]]
                hint_text = spec.sections[key]
                # the hint names the closure parameter(s): follow the renaming (simultaneous substitution)
                tmp = {hp: '\0VX%d\0' % i for i, hp in enumerate(hparams)}
                for hp, t_ in tmp.items():
                    hint_text = re.sub(r'(?<![A-Za-z0-9_.])%s(?![A-Za-z0-9_])' % re.escape(hp), t_, hint_text)
                for i, np_ in enumerate(a[1]):
                    hint_text = hint_text.replace('\0VX%d\0' % i, np_)
        if key is not None:
            ed.ins(st[pc].end, ' ' + hint_text + ' ')
            used.add(key)
            matched.add(key)
        elif not is_block and st[pc + 1].text != '->' and not any(t.text in OPEN for t in st[po + 1:pc]):
            body = [t.text for t in st[b0:b1 + 1]]
            ops = [k for k, tx in enumerate(body) if tx in ('==', '!=')]
            if len(ops) == 1 and all(SIMPLE_TOK.match(tx) for k, tx in enumerate(body) if k != ops[0]) and ops[0] not in (0, len(body) - 1):
                ed.ins(st[pc].end, ' -> (auto_r: bool) ensures auto_r == (%s) ' % sf.src[st[b0].start:st[b1].end])
            else:
                unspecified.append(sf.src[st[po].start:st[b1].end])
                continue
        else:
            unspecified.append(sf.src[st[po].start:st[b1].end])
            continue
        if not is_block:
            ed.ins(st[b0].start, '{ ')
            ed.ins(st[b1].end, ' }')
    for key in hints.values():
        used.add(key)
        if key not in matched and not (len(key) > 2 and key[2] == 'opt'):
            # the closure this contract was written for is gone or has changed: without its contract the enclosing
            # function cannot be decided (a failed proof would not mean anything)
            raise ExtractError('%s: closure hint <<%s>> matches no closure (anchor lost)' % (spec.path, key[1]))
        if key not in matched and unspecified:
            # optional hint: fine if the closure is GONE (replaced by closure-free code, which the verifier then sees in
            # full); if the range holds a closure without any contract instead, that may be the rewritten closure: its
            # result would be unconstrained and a failed proof would not mean anything
            raise ExtractError('%s: optional closure hint <<%s>> matches no closure while %d closure(s) of the range have no contract, e.g. `%s` (anchor lost)'
                               % (spec.path, key[1], len(unspecified), unspecified[0][:60]))


IDENT_ONLY = re.compile(r'^[A-Za-z_][A-Za-z0-9_]*$')


def find_token_seq(sf, lo, hi, texts):
    """All start indices where the token text sequence occurs in st[lo:hi]."""
    st = sf.st
    out = []
    n = len(texts)
    i = lo
    while i + n <= hi:
        if all(st[i + k].text == texts[k] for k in range(n)):
            out.append(i)
            i += n
        else:
            i += 1
    return out


def plain_texts(s):
    return [t.text for t in sig(lex(s))]


def strip_line_comments(s):
    return '\n'.join(l.split('//')[0] for l in s.split('\n'))


class ItemSpec:
    def __init__(self, path, opts, lineno):
        self.path = path
        self.opts = opts
        self.lineno = lineno
        self.binds = []
        self.variants = []   # earlier alternatives (sections, rws, binds); the current fields hold the last one
        self.sections = {}   # 'pre'|'spec'|'entry'|'exit'|('loop',n)|('closure',n) -> text
        self.rws = []        # (tag, count, orig, new)
        self.slice = None


def find_or_arms(sf, lo, hi):
    """Rule R3 helper: match arms in st[lo:hi] whose pattern is an or-pattern `A | B | C => body` (no guard).
    Returns a list of dicts(p0, e, alts, b0, b1) of token indices."""
    st, m = sf.st, sf.m
    arms = []
    i = lo
    while i < hi:
        if st[i].text == '=>':
            j = i - 1
            while j >= lo:
                tx = st[j].text
                if tx in (')', ']', '}'):
                    k = m[j]
                    if tx == '}' and st[k - 1].text == '=>':
                        break
                    j = k - 1
                    continue
                if tx in (',', '{'):
                    break
                j -= 1
            p0 = j + 1
            k = p0
            alt_start = p0
            alts = []
            has_guard = False
            while k < i:
                tx = st[k].text
                if tx in OPEN:
                    k = m[k] + 1
                    continue
                if tx == 'if':
                    has_guard = True
                    break
                if tx == '|':
                    alts.append((alt_start, k - 1))
                    alt_start = k + 1
                k += 1
            if not has_guard:
                alts.append((alt_start, i - 1))
            if len(alts) > 1 and not has_guard:
                b0 = i + 1
                if st[b0].text == '{':
                    b1 = m[b0]
                    e = b1
                    if st[e + 1].text == ',':
                        e += 1
                else:
                    k = b0
                    while True:
                        tx = st[k].text
                        if tx in OPEN:
                            k = m[k] + 1
                            continue
                        if tx == ',' or tx == '}':
                            break
                        k += 1
                    b1 = k - 1
                    e = k if st[k].text == ',' else k - 1
                arms.append({'p0': p0, 'e': e, 'alts': alts, 'b0': b0, 'b1': b1, 'subs': []})
                # nested or-arms inside this arm's body are not split separately
                i = e + 1
                continue
        i += 1
    return arms


def render_or_arms(sf, ed, arms):
    st = sf.st
    for a in arms:
        src = sf.src
        # body text with the nested token-level rewrites applied
        body = ''
        cur = st[a['b0']].start
        tags = ['R3']
        for (s0, s1, newtxt, tag) in sorted(a['subs']):
            body += src[cur:s0] + newtxt
            cur = s1
            tags.append(tag)
        body += src[cur:st[a['b1']].end]
        new = ' '.join('%s => %s,' % (src[st[x0].start:st[x1].end], body) for x0, x1 in a['alts'])
        ed.rw(st[a['p0']].start, st[a['e']].end, new, '+'.join(sorted(set(tags))))


def apply_rws(sf, ed, spec, lo_rw, hi_rw, arms=()):
    st = sf.st
    for rwt in spec.rws:
        tag, count, orig, new = rwt[:4]
        which = rwt[4] if len(rwt) > 4 else None     # `rw TAG k/N`: only the k-th of exactly N matches
        texts = plain_texts(orig)
        hits = find_token_seq(sf, lo_rw, hi_rw, texts)
        if count is not None and len(hits) != count:     # count `*`: every occurrence, however many
            raise ExtractError('%s: rewrite %s `%s` matches %d sites, expected %d (shape change)'
                               % (spec.path, tag, orig, len(hits), count))
        if which is not None:
            # `k/N`: the k-th match; `k+/N`: the k-th and every later match (none is fine); N may be `*`
            if which.endswith('+'):
                hits = hits[int(which[:-1]) - 1:]
            else:
                if int(which) > len(hits):
                    raise ExtractError('%s: rewrite %s `%s` has %d sites, no site number %s (shape change)' % (spec.path, tag, orig, len(hits), which))
                hits = [hits[int(which) - 1]]
        for h in hits:
            h1 = h + len(texts) - 1
            inside = [a for a in arms if a['b0'] <= h and h1 <= a['b1']]
            if inside:
                inside[0]['subs'].append((st[h].start, st[h1].end, new, tag))
            elif any(a['p0'] <= h1 and h <= a['e'] for a in arms):
                raise ExtractError('%s: rewrite %s straddles a split match arm' % (spec.path, tag))
            else:
                ed.rw(st[h].start, st[h1].end, new, tag)


def auto_r31(sf, ed, lo, hi):
    """Rule R31: `match E { P if G => A, _ => B }` (exactly these two arms) becomes `match E { P => { if G { A } else { B } }
    _ => B }`. Verus 0.2026.09.13 loses `final(self)` at a `return` in an arm that FOLLOWS a guarded arm when the function
    reborrows a field of `&mut self` later on (a failed postcondition "at this exit" on code for which it holds); without
    the guard the encoding is complete. Definitionally equal as long as B mentions no name bound by P (checked)."""
    st, m = sf.st, sf.m
    i = lo
    while i < hi:
        if st[i].kind == 'id' and st[i].text == 'match':
            j = i + 1
            while j < hi and st[j].text != '{':
                j = m[j] + 1 if st[j].text in ('(', '[') else j + 1
            if j >= hi:
                break
            close = m[j]
            # parse the arms
            arms = []
            k = j + 1
            ok = True
            while k < close:
                p0 = k
                g0 = None
                while k < close and st[k].text != '=>':
                    if st[k].text in OPEN:
                        k = m[k] + 1
                        continue
                    if st[k].text == 'if' and g0 is None:
                        g0 = k
                    k += 1
                if k >= close:
                    ok = False
                    break
                arrow = k
                b0 = k + 1
                if st[b0].text == '{':
                    b1 = m[b0]
                    k = b1 + 1
                else:
                    k = b0
                    while k < close and st[k].text != ',':
                        k = m[k] + 1 if st[k].text in OPEN else k + 1
                    b1 = k - 1
                if k < close and st[k].text == ',':
                    k += 1
                arms.append((p0, g0, arrow, b0, b1))
            if ok and len(arms) == 2 and arms[0][1] is not None and arms[1][1] is None \
                    and arms[1][2] == arms[1][0] + 1 and st[arms[1][0]].text == '_':
                (p0, g0, arrow, a0, a1), (_q0, _g, _ar, c0, c1) = arms
                bound = set(t.text for t in st[p0:g0] if t.kind == 'id' and t.text[:1].islower() and t.text not in ('ref', 'mut'))
                if not any(t.kind == 'id' and t.text in bound for t in st[c0:c1 + 1]):
                    btxt = sf.src[st[c0].start:st[c1].end]
                    ed.rw(st[g0].start, st[g0].end, '=> { if', 'R31')
                    ed.rw(st[arrow].start, st[arrow].end, '{', 'R31')
                    ed.rw(st[a1].end, st[a1].end, ' } else { ' + btxt + ' } }', 'R31')
            i = j + 1
            continue
        i += 1


def auto_r2(sf, ed, lo, hi, arms=()):
    """Rule R2, applied wherever it is needed: a closure parameter `_` (Verus: "only variables are supported here")
    becomes a named unused variable. Skipped where an explicit rewrite already covers the token."""
    st = sf.st
    n = 0
    for (po, pc, b0, b1, is_block) in find_closures(sf, lo, hi):
        for k in range(po + 1, pc):
            if st[k].text == '_' and st[k - 1].text in ('|', ',') and st[k + 1].text in ('|', ',', ':'):
                s0, e0 = st[k].start, st[k].end
                if any(e[0] <= s0 < e[0] + max(e[1], 1) or (s0 <= e[0] < e0) for e in ed.ed if e[1] > 0):
                    continue
                if any(a['p0'] <= k <= a['e'] for a in arms):
                    continue
                n += 1
                ed.rw(s0, e0, '_vx_unused%d' % n, 'R2')
            elif (st[k].text == '(' and st[k - 1].text == '|' and k == po + 1 and sf.m[k] + 1 == pc and sf.m[k] > k + 1
                  and all((IDENT_ONLY.match(st[q].text) if (q - k) % 2 == 1 else st[q].text == ',') for q in range(k + 1, sf.m[k]))):
                # Rule R2 (tuple form): the ONLY parameter is a tuple pattern of plain identifiers `|(a, b)| E`: it becomes
                # `|_vx_tupN| { let (a, b) = _vx_tupN; E }` (Verus: "only variables are supported here"); a closure contract
                # hint for it names the parameter `_vx_tup`, which is replaced by the generated name
                s0, e0 = st[k].start, st[sf.m[k]].end
                if any(e[0] <= s0 < e[0] + max(e[1], 1) or (s0 <= e[0] < e0) for e in ed.ed if e[1] > 0):
                    continue
                if any(a['p0'] <= k <= a['e'] for a in arms):
                    continue
                n += 1
                pat = sf.src[s0:e0]
                ed.rw(s0, e0, '_vx_tup', 'R2')
                if is_block:
                    ed.ins(st[b0].end, ' let %s = _vx_tup; ' % pat)
                else:
                    # (the braces around an expression body are added by annotate_closures when the closure has a contract;
                    #  here the let needs its own block)
                    ed.ins(st[b0].start, '{ let %s = _vx_tup; ' % pat)
                    ed.ins(st[b1].end, ' }')
            elif st[k].text == '(' and st[k + 1].text == ')' and st[k - 1].text in ('|', ',') and st[k + 2].text in ('|', ','):
                # the unit pattern `()` as a closure parameter: a named variable of type ()
                s0, e0 = st[k].start, st[k + 1].end
                if any(e[0] <= s0 < e[0] + max(e[1], 1) or (s0 <= e[0] < e0) for e in ed.ed if e[1] > 0):
                    continue
                if any(a['p0'] <= k <= a['e'] for a in arms):
                    continue
                n += 1
                ed.rw(s0, e0, '_vx_unit%d: ()' % n, 'R2')


def apply_binds(spec):
    """`//@ bind NAME <<anchor tokens>>`: NAME stands for the identifier that follows the anchor in the real function
    (e.g. the variable passed to `poll.poll(`); `$NAME` in the overlay text of this item is replaced by it, so that a
    hint or invariant can talk about "the variable that is passed there" whatever it is called. Not an identifier, or
    different identifiers at several sites: anchor lost."""
    if not spec.binds:
        return
    sf, chain = locate(spec.path)
    it = chain[-1]
    st = sf.st
    lo = (it.body_open + 1) if it.body_open is not None else it.first
    for name, anchor in spec.binds:
        texts = plain_texts(anchor)
        sites = find_token_seq(sf, lo, it.last, texts)
        idents = set()
        for k in sites:
            t = st[k + len(texts)].text
            if not IDENT_ONLY.match(t):
                raise ExtractError('%s: bind %s: `%s` is followed by `%s`, not by an identifier (anchor lost)' % (spec.path, name, anchor, t))
            idents.add(t)
        if len(idents) != 1:
            raise ExtractError('%s: bind %s: anchor `%s` matches %d sites with %d different identifiers (anchor lost)' % (spec.path, name, anchor, len(sites), len(idents)))
        ident = idents.pop()
        for key in list(spec.sections):
            spec.sections[key] = spec.sections[key].replace('$' + name, ident)
    spec.binds = []


def emit_item(spec, log, vacuity=False):
    sf, chain = locate(spec.path)
    it = chain[-1]
    st, m = sf.st, sf.m
    start = st[it.first].start
    end = st[it.last].end
    ed = Edits(sf, start, end)
    handle_attrs(sf, ed, it)
    if 'pre' in spec.sections:
        ed.ins(st[it.hdr].start, spec.sections['pre'] + '\n')
    hdr_lo = it.hdr
    body_open = it.body_open
    is_fn = it.kw == 'fn'
    used = {'pre'}
    if is_fn:
        sig_end = body_open if body_open is not None else it.last
        inner_cfgs(sf, ed, hdr_lo, sig_end)
        # return value name
        if 'ret' in spec.opts:
            # find `->` at depth 0 of the signature, after the parameter list
            k = it.kwidx
            while st[k].text != '(':
                k += 1
            k = m[k] + 1
            if k < sig_end and st[k].text == '->':
                r0 = k + 1
                r1 = r0
                while r1 < sig_end and st[r1].text != 'where':
                    if st[r1].text in OPEN:
                        r1 = m[r1] + 1
                    else:
                        r1 += 1
                ed.ins(st[r0].start, '(%s: ' % spec.opts['ret'])
                ed.ins(st[r1 - 1].end, ')')
            else:
                raise ExtractError('%s: ret= given but function has no return type' % spec.path)
        if body_open is None:
            # trait method declaration `fn f(..) -> T;`
            if 'spec' in spec.sections:
                ed.ins(st[it.last].start, '\n' + spec.sections['spec'] + '\n')
                used.add('spec')
            for key in spec.sections:
                if key not in used and key != 'pre':
                    raise ExtractError('%s: section %s not applicable to a declaration' % (spec.path, key))
            apply_rws(sf, ed, spec, hdr_lo, it.last + 1)
            text = ed.render()
            log.append({'path': spec.path, 'file': sf.rel, 'start': start, 'end': end, 'sigonly': False,
                        'rewrites': sorted(set(e[3] for e in ed.ed if e[3])), 'line': sf.src.count('\n', 0, start) + 1})
            return '/*@B %s %d %d %s*/' % (sf.rel, start, end, spec.path.replace('*/', '')) + text + '/*@E*/'
        if 'spec' in spec.sections:
            sp = spec.sections['spec']
            if vacuity and 'sigonly' not in spec.opts:
                # must-fail twin (DESIGN 2.7): `ensures false` has to be refuted for every contracted body
                sp = strip_line_comments(sp).rstrip()
                # a distinct uninterpreted flag per function: callers of this function learn nothing
                # that helps them refute their own flag
                VAC_COUNTER[0] += 1
                bogus = '!crate::vacuity_flag(%d) /*VACUITY*/' % VAC_COUNTER[0]
                if re.search(r'\bensures\b', sp):
                    sp = sp.rstrip(',') + ',\n ' + bogus + ','
                else:
                    sp = sp + '\n ensures ' + bogus + ','
            ed.ins(st[body_open].start, '\n' + sp + '\n')
            used.add('spec')
        if 'sigonly' in spec.opts:
            ed.ins(st[it.hdr].start, '#[verifier::external_body] ')
            ed.rw(st[body_open].start, st[it.last].end, '{ unimplemented!() }', 'D6')
        else:
            inner_cfgs(sf, ed, body_open + 1, it.last)
            if 'entry' in spec.sections:
                ed.ins(st[body_open].end, '\n' + spec.sections['entry'] + '\n')
                used.add('entry')
            if 'exit' in spec.sections:
                ed.ins(st[it.last].start, '\n' + spec.sections['exit'] + '\n')
                used.add('exit')
            attach_loops(sf, ed, spec, body_open + 1, it.last, spec.path, used, check='noloopcheck' not in spec.opts)
            annotate_closures(sf, ed, spec, body_open + 1, it.last, used)
            place_ghost_at_anchors(sf, ed, spec, body_open + 1, it.last, used)
        lo_rw, hi_rw = hdr_lo, it.last + 1
    else:
        lo_rw, hi_rw = hdr_lo, it.last + 1
        if it.kw in ('struct', 'enum', 'trait', 'impl') and body_open is not None:
            inner_cfgs(sf, ed, body_open + 1, it.last)
        if 'spec' in spec.sections and it.kw == 'const':
            # rule R4: `const X: T = E;` -> `exec const X: T ensures .. { proof..; E }`
            k = it.kwidx
            ed.ins(st[k].start, 'exec ')
            while st[k].text != '=':
                k += 1
            ed.rw(st[k].start, st[k].end, '\n' + spec.sections['spec'] + '\n{' + spec.sections.get('entry', ''), 'R4')
            ed.rw(st[it.last].start, st[it.last].end, '}', 'R4')
            used.add('spec')
            used.add('entry')
    arms = []
    if 'splitarms' in spec.opts and is_fn and body_open is not None and 'sigonly' not in spec.opts:
        arms = find_or_arms(sf, body_open + 1, it.last)
    apply_rws(sf, ed, spec, lo_rw, hi_rw, arms)
    if is_fn and body_open is not None and 'sigonly' not in spec.opts:
        auto_r2(sf, ed, body_open + 1, it.last, arms)
        auto_r31(sf, ed, body_open + 1, it.last)
    render_or_arms(sf, ed, arms)
    for key in spec.sections:
        if key not in used and key != 'pre':
            raise ExtractError('%s: section %s not applicable to this item' % (spec.path, key))
    text = ed.render()
    log.append({'path': spec.path, 'file': sf.rel, 'start': start, 'end': end,
                'sigonly': 'sigonly' in spec.opts,
                'rewrites': sorted(set([r[0] for r in spec.rws] + [e[3] for e in ed.ed if e[3]])),
                'line': sf.src.count('\n', 0, start) + 1})
    return '/*@B %s %d %d %s*/' % (sf.rel, start, end, spec.path.replace('*/', '')) + text + '/*@E*/'


def emit_slice(spec, log, vacuity=False):
    """Rule S1: lift a closure body or a statement range of a real function verbatim into a generated fn."""
    sf, chain = locate(spec.path)
    it = chain[-1]
    st, m = sf.st, sf.m
    if it.kw != 'fn' or it.body_open is None:
        raise ExtractError('%s: slice target is not a function with a body' % spec.path)
    sel = spec.opts['sel']
    if sel[0] == 'closure':
        closures = find_closures(sf, it.body_open + 1, it.last)
        n = sel[1]
        if n < 1 or n > len(closures):
            raise ExtractError('%s: closure %d not found (%d present): anchor lost' % (spec.path, n, len(closures)))
        po, pc, b0, b1, is_block = closures[n - 1]
        if not is_block:
            raise ExtractError('%s: closure %d has no block body' % (spec.path, n))
        lo, hi = b0 + 1, b1 - 1       # tokens inside the braces
        desc = 'closure %d' % n
    elif sel[0] == 'loopbody':
        hits = [lp for lp in find_loops(sf, it.body_open + 1, it.last)
                if find_token_seq(sf, lp[0], lp[1], plain_texts(sel[1]))]
        kth, ntot = sel[2] if len(sel) > 2 else (1, 1)
        if len(hits) != ntot:
            raise ExtractError('%s: loop head `%s` matches %d loops, expected %d (anchor lost)' % (spec.path, sel[1], len(hits), ntot))
        lo, hi = hits[kth - 1][1] + 1, m[hits[kth - 1][1]] - 1
        desc = 'body of the loop `%s ..`' % sel[1]
    elif sel[0] == 'body':
        lo, hi = it.body_open + 1, it.last - 1
        desc = 'whole body'
    elif sel[0] == 'afterstmt':
        hits = find_token_seq(sf, it.body_open + 1, it.last, plain_texts(sel[1]))
        if len(hits) != 1:
            raise ExtractError('%s: slice anchor `%s` matches %d sites (anchor lost)' % (spec.path, sel[1], len(hits)))
        k = hits[0]
        # end of the statement that starts with the anchor: `;` at depth 0, or the closing brace of a block statement
        while True:
            tx = st[k].text
            if tx in OPEN:
                k = m[k]
                if st[k].text == '}' and st[k + 1].text not in (';', '.', '?', 'else', '{'):
                    break
                k += 1
                continue
            if tx == ';':
                break
            k += 1
        lo, hi = k + 1, it.last - 1
        desc = 'all statements after `%s`' % sel[1]
    else:
        f_texts, t_texts = plain_texts(sel[1]), plain_texts(sel[2])
        fh = find_token_seq(sf, it.body_open + 1, it.last, f_texts)
        th = find_token_seq(sf, it.body_open + 1, it.last, t_texts)
        (fk, fn_), (tk, tn_) = (sel[3], sel[4]) if len(sel) > 4 else ((1, 1), (1, 1))
        if len(fh) != fn_ or len(th) != tn_:
            raise ExtractError('%s: slice anchors match %d/%d sites, expected %d/%d (anchor lost)' % (spec.path, len(fh), len(th), fn_, tn_))
        lo = fh[fk - 1]
        exclusive = len(sel) > 5 and sel[5]
        # extend `to` to the end of its statement: next `;` at depth 0, or the closing brace of a block statement
        # (`..<`: the range ends right BEFORE the statement that starts with the second anchor, so that anything inserted
        # between the last covered statement and it is inside the slice)
        k = th[tk - 1]
        while not exclusive:
            tx = st[k].text
            if tx in OPEN:
                k = m[k]
                if st[k].text == '}' and st[k + 1].text not in (';', '.', '?', 'else', '{'):
                    break
                k += 1
                continue
            if tx == ';':
                break
            if tx in (')', ']', '}'):
                # tail expression of the enclosing block
                k -= 1
                break
            k += 1
        hi = (k - 1) if exclusive else k
        if hi < lo:
            raise ExtractError('%s: empty statement range (anchor lost)' % spec.path)
        desc = 'statements `%s` .. `%s`%s' % (sel[1], sel[2], ' (exclusive)' if exclusive else '')
    start, end = st[lo].start, st[hi].end
    ed = Edits(sf, start, end)
    inner_cfgs(sf, ed, lo, hi + 1)
    sp = spec.sections.get('spec', '')
    if vacuity and sp:
        VAC_COUNTER[0] += 1
        bogus = '!crate::vacuity_flag(%d) /*VACUITY*/' % VAC_COUNTER[0]
        sp = strip_line_comments(sp).rstrip()
        sp = (sp.rstrip(',') + ',\n ' + bogus + ',') if re.search(r'\bensures\b', sp) else (sp + '\n ensures ' + bogus + ',')
    ed.ins(start, spec.sections.get('sig', '') + '\n' + sp + '\n{\n' + spec.sections.get('entry', '') + '\n')
    ed.ins(end, '\n' + spec.sections.get('tail', '') + '\n}')
    attach_loops(sf, ed, spec, lo, hi + 1, '%s (%s)' % (spec.path, desc))
    annotate_closures(sf, ed, spec, lo, hi + 1, set())
    place_ghost_at_anchors(sf, ed, spec, lo, hi + 1, set())
    apply_rws(sf, ed, spec, lo, hi + 1)
    auto_r2(sf, ed, lo, hi + 1)
    auto_r31(sf, ed, lo, hi + 1)
    if sel[0] == 'loopbody':
        # Rule R30: in the lifted body of a loop, an unlabelled `continue` of THAT loop (not of a loop or closure nested in
        # the body) ends the iteration: it becomes `return <tail>` -- what the lifted function does at its end anyway
        nested = [(lp[0], m[lp[1]]) for lp in find_loops(sf, lo, hi + 1)] + [(c[0], c[3]) for c in find_closures(sf, lo, hi + 1)]
        tail_txt = strip_line_comments(spec.sections.get('tail', '')).strip()
        for k in range(lo, hi + 1):
            if st[k].text == 'continue' and st[k + 1].text == ';' and not any(a <= k <= b for a, b in nested):
                ed.rw(st[k].start, st[k].end, 'return ' + tail_txt if tail_txt else 'return', 'R30')
    text = ed.render()
    log.append({'path': spec.path + ' :: ' + desc, 'file': sf.rel, 'start': start, 'end': end, 'sigonly': False, 'slice': True,
                'rewrites': sorted(set(['S1'] + [r[0] for r in spec.rws] + [e[3] for e in ed.ed if e[3]])),
                'line': sf.src.count('\n', 0, start) + 1})
    return '/*@S %s %d %d %s :: %s*/' % (sf.rel, start, end, spec.path.replace('*/', ''), desc.replace('*/', '')) + text + '/*@E*/'


def emit_open(path, log):
    sf, chain = locate(path)
    it = chain[-1]
    if it.body_open is None:
        raise ExtractError('%s: not a block item' % path)
    st = sf.st
    start = st[it.first].start
    end = st[it.body_open].end
    ed = Edits(sf, start, end)
    handle_attrs(sf, ed, it)
    inner_cfgs(sf, ed, it.hdr, it.body_open)
    return sf, it, ed


DIRECTIVE = re.compile(r'^\s*//@\s?(.*)$')
RW_RE = re.compile(r'^rw\s+(\w+)\s+(?:(\d+\+?)/)?(\d+|\*)\s+<<(.*?)>>\s*=>\s*<<(.*?)>>\s*$')


def parse_opts(words):
    opts = {}
    for w in words:
        if '=' in w:
            k, v = w.split('=', 1)
            opts[k] = v
        else:
            opts[w] = True
    return opts


def split_path_opts(rest):
    """'src/a.rs / impl X<A, B> / fn f props=C01 ret=r' -> (path, opts)"""
    words = rest.split()
    optwords = []
    while words and (re.match(r'^(props|ret|name|hdr_rw)=', words[-1]) or words[-1] in ('sigonly', 'noloopcheck', 'splitarms', 'optional')):
        optwords.append(words.pop())
    return ' '.join(words), parse_opts(optwords)


INCLUDED = []
DEGRADED = []
SKIP_VARIANTS = {}     # region name -> number of overlay variants (`//@ alt`) the runner has already seen rejected
VARIANT_USED = {}      # region name -> (index used, number of variants)
FORCE_DEGRADE = {}     # region name -> reason (set by the runner when the verifier rejects a construct inside that item)
VAC_COUNTER = [0]
FLAGS = set()


def preprocess(lines, frag_name):
    out = []
    stack = []   # list of bools: currently emitting?
    for l in lines:
        md = DIRECTIVE.match(l)
        d = md.group(1).strip() if md else None
        if d is not None and d.startswith('if '):
            name = d.split()[1]
            neg = name.startswith('!')
            val = (name.lstrip('!') in FLAGS) != neg
            stack.append(val)
            continue
        if d == 'else':
            if not stack:
                raise ExtractError('%s: else without if' % frag_name)
            stack[-1] = not stack[-1]
            continue
        if d == 'endif':
            if not stack:
                raise ExtractError('%s: endif without if' % frag_name)
            stack.pop()
            continue
        if all(stack):
            out.append(l)
    if stack:
        raise ExtractError('%s: unterminated if' % frag_name)
    return out


class Region:
    def __init__(self, name, props, kind, frag, first_line):
        self.name = name
        self.props = props
        self.kind = kind        # 'ghost' | 'item' | 'sigonly' | 'scaffold'
        self.frag = frag
        self.first_line = first_line   # in generated file (1-based), filled on render
        self.last_line = None
        self.path = None
        self.inserted_spans = []
        self.optional = False


MOD_FILES = {'loop_logic': 'src/loop_logic.rs', 'sys': 'src/sys.rs', 'sources': 'src/sources/mod.rs', 'timer': 'src/sources/timer.rs',
             'channel': 'src/sources/channel.rs', 'error': 'src/error.rs', 'futures': 'src/sources/futures.rs',
             'generic': 'src/sources/generic.rs', 'io': 'src/io.rs', 'list': 'src/list.rs', 'ping': 'src/sources/ping.rs',
             'eventfd': 'src/sources/ping/eventfd.rs', 'signals': 'src/sources/signals.rs', 'stream': 'src/sources/stream.rs',
             'token': 'src/token.rs', 'transient': 'src/sources/transient.rs'}
MOD_LINE = re.compile(r'^\s*pub(?:\(crate\))?\s+mod\s+(\w+)\s*\{\s*$')


def std_use_leaves(rel):
    """(path, name) for every leaf of the top-level `use std::..` / `use core::..` items of the real file (cfg-filtered by the
    lexer's item splitter is not needed: a std path that does not exist on this target would be a compile error anyway)."""
    try:
        src = open(os.path.join(REPO, rel), encoding='utf-8').read()
    except OSError:
        return []
    toks = sig(lex(src))
    m_ = match_brackets(toks)
    out = []
    depth = 0
    i = 0
    n = len(toks)

    def tree(k, prefix):
        # parses a use-tree starting at toks[k]; returns index after it
        path = list(prefix)
        while k < n:
            tx = toks[k].text
            if tx == '{':
                k += 1
                while k < n and toks[k].text != '}':
                    k = tree(k, path)
                    if k < n and toks[k].text == ',':
                        k += 1
                return k + 1
            if tx == '*':
                return k + 1        # globs are not copied
            if tx == 'self':
                name = path[-1] if path else None
                k += 1
                if k < n and toks[k].text == 'as':
                    name = toks[k + 1].text
                    k += 2
                if name:
                    out.append(('::'.join(path), name, '::'.join(path) + (' as ' + name if name != path[-1] else '')))
                return k
            path.append(tx)
            k += 1
            if k < n and toks[k].text == '::':
                k += 1
                continue
            name = path[-1]
            stmt = '::'.join(path)
            if k < n and toks[k].text == 'as':
                name = toks[k + 1].text
                stmt += ' as ' + name
                k += 2
            out.append(('::'.join(path), name, stmt))
            return k
        return k

    while i < n:
        tx = toks[i].text
        if tx in ('{', '(', '['):
            depth += 1
        elif tx in ('}', ')', ']'):
            depth -= 1
        elif depth == 0 and tx == 'use' and i + 1 < n and toks[i + 1].text in ('std', 'core', 'alloc'):
            # attributes right before the item: `#[cfg(..)]` that is false on the verified configuration => skip the item
            k = i - 1
            if k >= 0 and toks[k].text == ')' :
                pass
            live = True
            while k >= 0 and toks[k].text == ']':
                o = m_[k]
                if o >= 1 and toks[o - 1].text == '#':
                    inner = [t.text for t in toks[o + 1:k]]
                    if inner[:2] == ['cfg', '('] and inner[-1] == ')':
                        try:
                            if not eval_cfg_tokens(inner[2:-1]):
                                live = False
                        except Exception:
                            live = False
                    k = o - 2
                else:
                    break
            if live:
                i = tree(i + 1, [])
            else:
                while i < n and toks[i].text != ';':
                    i += 1
            continue
        i += 1
    return out


def auto_uses(modname, following_lines):
    """Rule D7: the `use` lines of a miniature module are hand-written copies of the real file's; an std import that the
    real file has (or gains) and the copy lacks is added here, so that an edit which merely starts using another std
    item does not make the unit undecided. Only names the hand-written lines do not already bring in are added."""
    rel = MOD_FILES.get(modname)
    if rel is None:
        return []
    taken = set()
    for l in following_lines:
        if MOD_LINE.match(l) or l.strip().startswith('//@ include') or l.strip().startswith('} //'):
            break
        if re.match(r'^\s*(#\[[^\]]*\]\s*)?(pub(\([a-z]+\))?\s+)?use\s', l):
            taken.update(re.findall(r'[A-Za-z_][A-Za-z0-9_]*', l))
    res = []
    for path, name, stmt in std_use_leaves(rel):
        if name in taken or name in ('std', 'core', 'alloc'):
            continue
        taken.add(name)
        res.append('#[allow(unused_imports)] use %s; /*D7*/' % stmt)
    return res


def expand_fragment(frag_name, text, out_lines, regions, log, vacuity=False):
    """Expand one fragment template into out_lines; record regions (line ranges)."""
    lines = preprocess(text.split('\n'), frag_name)
    cur_region = None
    i = 0
    included = INCLUDED

    def start_region(name, props, kind):
        nonlocal cur_region
        end_region()
        cur_region = Region(name, props, kind, frag_name, len(out_lines) + 1)
        regions.append(cur_region)

    def end_region():
        nonlocal cur_region
        if cur_region is not None:
            cur_region.last_line = len(out_lines)
            cur_region = None

    def emit(s):
        out_lines.extend(s.split('\n'))

    while i < len(lines):
        line = lines[i]
        md = DIRECTIVE.match(line)
        if not md:
            if cur_region is None:
                start_region(frag_name + ':scaffold', [], 'scaffold')
            out_lines.append(line)
            i += 1
            mm_ = MOD_LINE.match(line)
            if mm_ and frag_name.startswith('m_'):
                out_lines.extend(auto_uses(mm_.group(1), lines[i:]))
            continue
        d = md.group(1).strip()
        i += 1
        if d.startswith('if ') or d == 'else' or d == 'endif':
            # handled by preprocess(); never reached
            raise ExtractError('%s: stray conditional directive' % frag_name)
        if d.startswith('include '):
            inc = d.split()[1]
            end_region()
            inc_text = open(os.path.join(VX, 'mods', inc + '.rs')).read()
            out_lines.append('// ---- include %s' % inc)
            expand_fragment(inc, inc_text, out_lines, regions, log, vacuity)
            included.append(inc)
        elif d.startswith('region '):
            words = d.split()
            opts = parse_opts(words[2:])
            start_region(words[1], [p for p in opts.get('props', '').split(',') if p], 'ghost')
        elif d == 'endregion':
            end_region()
        elif d.startswith('open '):
            path, opts = split_path_opts(d[5:])
            sf, it, ed = emit_open(path, log)
            rws = []
            while i < len(lines):
                md2 = DIRECTIVE.match(lines[i])
                if not md2:
                    break
                mr = RW_RE.match(md2.group(1).strip())
                if not mr:
                    break
                rws.append((mr.group(1), (None if mr.group(3) == '*' else int(mr.group(3))), mr.group(4), mr.group(5)))
                i += 1
            for tag, count, orig, new in rws:
                texts = plain_texts(orig)
                hits = find_token_seq(sf, it.hdr, it.body_open, texts)
                if count is not None and len(hits) != count:
                    raise ExtractError('%s: header rewrite %s `%s` matches %d sites, expected %d'
                                       % (path, tag, orig, len(hits), count))
                for h in hits:
                    ed.rw(sf.st[h].start, sf.st[h + len(texts) - 1].end, new, tag)
            start_region(frag_name + ':open', [], 'scaffold')
            emit('/*@H %s %d %d %s*/' % (sf.rel, ed.start, ed.end, path) + ed.render() + '/*@E*/')
            end_region()
        elif d == 'close':
            start_region(frag_name + ':close', [], 'scaffold')
            emit('}')
            end_region()
        elif d.startswith('item ') or d.startswith('slice '):
            is_slice = d.startswith('slice ')
            path, opts = split_path_opts(d[6:] if is_slice else d[5:])
            if is_slice:
                if ' :: ' not in path:
                    raise ExtractError('%s: slice needs `:: closure N` or `:: stmts <<a>> .. <<b>>`' % frag_name)
                path, selector = path.split(' :: ', 1)
                ms = re.match(r'^closure\s+(\d+)$', selector.strip())
                if ms:
                    opts['sel'] = ('closure', int(ms.group(1)))
                else:
                    ms = re.match(r'^stmts\s+<<(.*?)>>(?:#(\d+)/(\d+))?\s*\.\.(<?)\s*<<(.*?)>>(?:#(\d+)/(\d+))?$', selector.strip())
                    ml = re.match(r'^loopbody\s+<<(.*?)>>(?:#(\d+)/(\d+))?$', selector.strip())
                    ma = re.match(r'^after\s+<<(.*?)>>$', selector.strip())
                    if selector.strip() == 'body':
                        opts['sel'] = ('body',)
                    elif ms:
                        opts['sel'] = ('stmts', ms.group(1), ms.group(5),
                                       (int(ms.group(2)), int(ms.group(3))) if ms.group(2) else (1, 1),
                                       (int(ms.group(6)), int(ms.group(7))) if ms.group(6) else (1, 1),
                                       ms.group(4) == '<')
                    elif ml:
                        opts['sel'] = ('loopbody', ml.group(1), (int(ml.group(2)), int(ml.group(3))) if ml.group(2) else (1, 1))
                    elif ma:
                        opts['sel'] = ('afterstmt', ma.group(1))
                    else:
                        raise ExtractError('%s: bad slice selector %s' % (frag_name, selector))
            spec = ItemSpec(path, opts, i)
            cur_sec = None
            buf = []

            def flush():
                nonlocal cur_sec, buf
                if cur_sec is not None:
                    spec.sections[cur_sec] = '\n'.join(buf)
                cur_sec, buf = None, []

            closed = False
            while i < len(lines):
                l2 = lines[i]
                md2 = DIRECTIVE.match(l2)
                i += 1
                if md2:
                    d2 = md2.group(1).strip()
                    if d2 in ('enditem', 'endslice'):
                        flush()
                        closed = True
                        break
                    w = d2.split()
                    if w[0] in ('pre', 'spec', 'entry', 'exit', 'sig', 'tail'):
                        flush()
                        cur_sec = w[0]
                    elif w[0] in ('closure', 'closure?'):
                        flush()
                        mc = re.match(r'^closure(\??)\s+<<(.*)>>\s*$', d2)
                        if not mc:
                            raise ExtractError('%s: closure hints are keyed by text: `closure <<|x| body>>` (%s)' % (frag_name, d2))
                        # `closure? <<..>>`: optional hint -- if the closure is gone the function is verified without it
                        cur_sec = ('closuret', mc.group(2), 'opt') if mc.group(1) else ('closuret', mc.group(2))
                    elif w[0] == 'loop':
                        flush()
                        ml2 = re.match(r'^loop\s+<<(.*)>>\s*$', d2)
                        # `loop N`: the N-th loop in textual order; `loop <<head>>`: the loop whose head starts with these
                        # tokens (survives a reordering of loops)
                        cur_sec = ('loopt', ml2.group(1)) if ml2 else (w[0], int(w[1]))
                    elif w[0] in ('after', 'before', 'atloopstart', 'atloopend', 'afterloop'):
                        flush()
                        mc = re.match(r'^(after|before|atloopstart|atloopend|afterloop)\s+<<(.*)>>\s*$', d2)
                        if not mc:
                            raise ExtractError('%s: bad %s directive (%s)' % (frag_name, w[0], d2))
                        cur_sec = (mc.group(1), mc.group(2))
                    elif w[0] == 'alt':
                        # `//@ alt`: what follows is an ALTERNATIVE set of hint sections (rewrites, loop invariants, anchored
                        # ghost text, entry/exit proof) for another shape of the same function; contract sections (`spec`,
                        # `pre`, `sig`, `tail`) are shared unless given again. The first variant that splices is used.
                        flush()
                        shared = {k: v for k, v in spec.sections.items() if k in ('spec', 'pre', 'sig', 'tail')}
                        spec.variants.append((dict(spec.sections), list(spec.rws), list(spec.binds)))
                        spec.sections = dict(shared)
                        spec.rws = []
                        spec.binds = []
                    elif w[0] == 'bind':
                        flush()
                        mb = re.match(r'^bind\s+([A-Z][A-Z0-9_]*)\s+<<(.*)>>\s*$', d2)
                        if not mb:
                            raise ExtractError('%s: bad bind directive: %s' % (frag_name, d2))
                        spec.binds.append((mb.group(1), mb.group(2)))
                    elif w[0] == 'rw':
                        flush()
                        mr = RW_RE.match(d2)
                        if not mr:
                            raise ExtractError('%s: bad rw directive: %s' % (frag_name, d2))
                        spec.rws.append((mr.group(1), (None if mr.group(3) == '*' else int(mr.group(3))), mr.group(4), mr.group(5), mr.group(2)))
                    else:
                        raise ExtractError('%s: unknown item directive: %s' % (frag_name, d2))
                else:
                    if cur_sec is None:
                        if l2.strip():
                            raise ExtractError('%s:%d: text outside a section in item %s' % (frag_name, i, path))
                    else:
                        buf.append(l2)
            if not closed:
                raise ExtractError('%s: item %s not closed' % (frag_name, path))
            name = opts.get('name', path)
            kind = 'sigonly' if 'sigonly' in opts else 'item'
            if 'optional' in opts:
                # an item that the unchanged tree does not have but that an edit may plausibly introduce (a helper several
                # independent seed agents invented under the same name): if it exists it is verified against the contract
                # given here -- taken from the property, not from any body --, if not it is simply skipped
                try:
                    sf_o, chain_o = locate(spec.path)
                except ExtractError:
                    continue
                # an optional SLICE over a loop body: also skipped when the function exists but has no loop with that head
                # (the shape the overlay is written for -- e.g. a loop over pre-resolved tuples -- is not there)
                if is_slice and spec.opts['sel'][0] == 'loopbody' and chain_o[-1].body_open is not None:
                    sel_o = spec.opts['sel']
                    if not [lp for lp in find_loops(sf_o, chain_o[-1].body_open + 1, chain_o[-1].last)
                            if find_token_seq(sf_o, lp[0], lp[1], plain_texts(sel_o[1]))]:
                        continue
            start_region(name, [p for p in opts.get('props', '').split(',') if p], kind)
            cur_region.path = path
            cur_region.optional = 'optional' in opts
            # graceful degradation: if THIS item cannot be spliced (lost anchor, loop/rewrite count mismatch: its shape
            # changed) only its own obligations become undecided. A function is then emitted signature-only with its
            # contract (so that the rest of the unit still sees what it saw before); a slice is left out.
            try:
                if name in FORCE_DEGRADE and 'sigonly' not in opts:
                    raise ExtractError('the verifier rejects this item as it stands: %s' % FORCE_DEGRADE[name])
                variants = spec.variants + [(spec.sections, spec.rws, spec.binds)]
                last_err = None
                for vi, (secs, rws_, binds_) in enumerate(variants):
                    if vi < SKIP_VARIANTS.get(name, 0):
                        last_err = ExtractError('the verifier rejects overlay variant %d of this item' % vi)
                        continue
                    spec.sections, spec.rws, spec.binds = dict(secs), list(rws_), list(binds_)
                    try:
                        log_mark = len(log)
                        apply_binds(spec)
                        text_ = emit_slice(spec, log, vacuity) if is_slice else emit_item(spec, log, vacuity)
                        emit(text_)
                        last_err = None
                        VARIANT_USED[name] = (vi, len(variants))
                        break
                    except ExtractError as e_:
                        del log[log_mark:]
                        last_err = e_
                if last_err is not None:
                    raise last_err
            except ExtractError as e:
                degraded = None
                if not is_slice and 'sigonly' not in opts:
                    try:
                        sf2, chain2 = locate(spec.path)
                        if chain2[-1].kw == 'fn' and chain2[-1].body_open is not None:
                            spec2 = ItemSpec(spec.path, dict(opts, sigonly=True), spec.lineno)
                            if 'spec' in spec.sections:
                                spec2.sections['spec'] = spec.sections['spec']
                            if 'pre' in spec.sections:
                                spec2.sections['pre'] = spec.sections['pre']
                            # only rewrites that touch the signature can apply; keep those that still match in the header
                            emit(emit_item(spec2, log, vacuity))
                            degraded = 'signature-only'
                    except ExtractError:
                        degraded = None
                if degraded is None:
                    gone_fn = (not is_slice and 'matches 0 items' in str(e)
                               and spec.path.split('/')[-1].strip().startswith('fn '))
                    if not is_slice and not gone_fn:
                        raise
                    # a FUNCTION the unit lists no longer exists (renamed, merged into another, removed): only its own
                    # obligations become undecided; whoever still calls it fails to compile in the miniature crate and is
                    # degraded in turn. (A missing type or trait stays fatal for the unit.)
                    degraded = 'left out (the function no longer exists)' if gone_fn else 'left out'
                cur_region.kind = 'degraded'
                DEGRADED.append({'region': name, 'props': list(cur_region.props), 'reason': str(e), 'how': degraded})
            end_region()
        else:
            raise ExtractError('%s: unknown directive: %s' % (frag_name, d))
    end_region()


HEADER = """#![allow(unused_imports, dead_code, unused_variables, unused_mut, unused_braces, unused_parens, unreachable_code, non_snake_case, non_camel_case_types)]
%(features)s
use vstd::prelude::*;
verus! {
global size_of usize == 8;
pub uninterp spec fn vacuity_flag(k: int) -> bool;
"""
FOOTER = """
} // verus!
fn main() {}
"""


def build_unit(unit, outdir, vacuity=False, force_degrade=None, skip_variants=None):
    """Returns dict(meta) and writes <outdir>/<unit>.rs"""
    upath = os.path.join(VX, 'units', unit + '.unit')
    frags = []
    features = ''
    flags = set()
    for l in open(upath):
        l = l.strip()
        if not l or l.startswith('#'):
            continue
        if l.startswith('feature '):
            features += '#![feature(%s)]\n' % l.split()[1]
            continue
        if l.startswith('flag '):
            flags.add(l.split()[1])
            continue
        frags.append(l)
    out_lines = (HEADER % {'features': features}).split('\n')
    out_lines.pop()  # trailing empty
    regions = []
    log = []
    del INCLUDED[:]
    del DEGRADED[:]
    FORCE_DEGRADE.clear()
    FORCE_DEGRADE.update(force_degrade or {})
    SKIP_VARIANTS.clear()
    SKIP_VARIANTS.update(skip_variants or {})
    VARIANT_USED.clear()
    FLAGS.clear()
    FLAGS.update(flags)
    for f in frags:
        text = open(os.path.join(VX, 'mods', f + '.rs')).read()
        out_lines.append('// ==== fragment %s' % f)
        expand_fragment(f, text, out_lines, regions, log, vacuity)
    out_lines.extend(FOOTER.split('\n'))
    os.makedirs(outdir, exist_ok=True)
    out = os.path.join(outdir, unit + ('_vac' if vacuity else '') + '.rs')
    with open(out, 'w') as fh:
        fh.write('\n'.join(out_lines))
    meta = {
        'unit': unit, 'file': out, 'fragments': frags + list(INCLUDED), 'variants': dict(VARIANT_USED),
        'regions': [{'name': r.name, 'props': r.props, 'kind': r.kind, 'frag': r.frag,
                     'first_line': r.first_line, 'last_line': r.last_line, 'path': r.path, 'optional': r.optional} for r in regions],
        'items': log,
        'degraded': list(DEGRADED),
    }
    with open(os.path.join(outdir, unit + ('_vac' if vacuity else '') + '.meta.json'), 'w') as fh:
        json.dump(meta, fh, indent=1)
    return meta


if __name__ == '__main__':
    import argparse
    ap = argparse.ArgumentParser()
    ap.add_argument('unit')
    ap.add_argument('--out', default=os.path.join(VX, '..', 'build', 'gen'))
    a = ap.parse_args()
    try:
        meta = build_unit(a.unit, a.out)
    except ExtractError as e:
        print('UNDECIDED extract: %s' % e)
        sys.exit(2)
    for d in DEGRADED:
        print('DEGRADED %s [%s] %s: %s' % (d.get('region'), ','.join(d.get('props', [])), d.get('how'), d.get('reason')))
    print(meta['file'])
