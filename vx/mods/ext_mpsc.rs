//@ region prelude_mpsc
/// ASSUMED contracts for std::sync::mpsc (DESIGN 2.3). The queue lives behind &self and is shared with other threads:
/// its contents are not representable. What contracts can say: monotone history witnesses of what try_recv answered.
pub mod ext_mpsc {
    use vstd::prelude::*;
    use std::sync::mpsc;
    #[verifier::external_type_specification] #[verifier::external_body] #[verifier::reject_recursive_types(T)]
    pub struct ExReceiver<T>(mpsc::Receiver<T>);
    #[verifier::external_type_specification] #[verifier::external_body] #[verifier::reject_recursive_types(T)]
    pub struct ExSender<T>(mpsc::Sender<T>);
    #[verifier::external_type_specification] #[verifier::external_body] #[verifier::reject_recursive_types(T)]
    pub struct ExSyncSender<T>(mpsc::SyncSender<T>);
    #[verifier::external_type_specification]
    pub struct ExTryRecvError(mpsc::TryRecvError);
    #[verifier::external_type_specification] #[verifier::reject_recursive_types(T)]
    pub struct ExTrySendError<T>(mpsc::TrySendError<T>);
    #[verifier::external_type_specification] #[verifier::reject_recursive_types(T)]
    pub struct ExSendError<T>(mpsc::SendError<T>);
    #[verifier::external_type_specification]
    pub struct ExRecvError(mpsc::RecvError);

    /// try_recv on this receiver has returned the message v
    pub uninterp spec fn w_received<T>(r: &mpsc::Receiver<T>, v: T) -> bool;
    /// try_recv on this receiver has answered Empty / Disconnected
    pub uninterp spec fn w_empty<T>(r: &mpsc::Receiver<T>) -> bool;
    pub uninterp spec fn w_disconnected<T>(r: &mpsc::Receiver<T>) -> bool;
    /// may-call side (verification device, DESIGN 2.12): try_recv REQUIRES it; lets a caller state what must have happened
    /// before the queue may be drained (the executor: its `notified` flag has been cleared)
    pub uninterp spec fn may_recv<T>(r: &mpsc::Receiver<T>) -> bool;
    pub assume_specification<T> [mpsc::Receiver::<T>::try_recv] (r: &mpsc::Receiver<T>) -> (res: Result<T, mpsc::TryRecvError>)
        requires may_recv(r),
        ensures match res {
            Ok(v) => w_received(r, v),
            Err(mpsc::TryRecvError::Empty) => w_empty(r),
            Err(mpsc::TryRecvError::Disconnected) => w_disconnected(r),
        };
    pub assume_specification<T> [mpsc::Receiver::<T>::recv] (r: &mpsc::Receiver<T>) -> (res: Result<T, mpsc::RecvError>);
    /// a send on this handle has returned Ok (the message is in the queue)
    pub uninterp spec fn w_sent<T>(s: &mpsc::Sender<T>) -> bool;
    pub uninterp spec fn w_sync_sent<T>(s: &mpsc::SyncSender<T>) -> bool;
    pub assume_specification<T> [mpsc::Sender::<T>::send] (s: &mpsc::Sender<T>, t: T) -> (res: Result<(), mpsc::SendError<T>>)
        ensures res is Ok ==> w_sent(s);
    /// may-call side for the BLOCKING send on a bounded queue (a verification device, DESIGN 2.12): lets the owner state what
    /// must have happened before a thread may park in it (calloop: the loop has been woken, or nobody will ever make room)
    pub uninterp spec fn may_block_send<T>(s: &mpsc::SyncSender<T>) -> bool;
    pub assume_specification<T> [mpsc::SyncSender::<T>::send] (s: &mpsc::SyncSender<T>, t: T) -> (res: Result<(), mpsc::SendError<T>>)
        requires may_block_send(s),
        ensures res is Ok ==> w_sync_sent(s);
    pub assume_specification<T> [mpsc::SyncSender::<T>::try_send] (s: &mpsc::SyncSender<T>, t: T) -> (res: Result<(), mpsc::TrySendError<T>>)
        ensures res is Ok ==> w_sync_sent(s);
    /// ASSUMED: std::cmp::min on types whose Ord obeys its spec returns the smaller argument (the first on ties)
    /// the queue a handle belongs to (ghost identity); ASSUMED: `channel()` / `sync_channel(n)` return the two ends of ONE
    /// fresh queue
    pub uninterp spec fn queue_of_rx<T>(r: &mpsc::Receiver<T>) -> int;
    pub uninterp spec fn queue_of_tx<T>(s: &mpsc::Sender<T>) -> int;
    pub uninterp spec fn queue_of_stx<T>(s: &mpsc::SyncSender<T>) -> int;
    /// ASSUMED: a cloned sender is another handle to the same queue
    pub assume_specification<T> [<mpsc::Sender<T> as Clone>::clone] (s: &mpsc::Sender<T>) -> (r: mpsc::Sender<T>)
        ensures queue_of_tx(&r) == queue_of_tx(s);
    pub assume_specification<T> [<mpsc::SyncSender<T> as Clone>::clone] (s: &mpsc::SyncSender<T>) -> (r: mpsc::SyncSender<T>)
        ensures queue_of_stx(&r) == queue_of_stx(s);
    pub assume_specification<T> [mpsc::channel::<T>] () -> (r: (mpsc::Sender<T>, mpsc::Receiver<T>))
        ensures queue_of_tx(&r.0) == queue_of_rx(&r.1);
    pub assume_specification<T> [mpsc::sync_channel::<T>] (bound: usize) -> (r: (mpsc::SyncSender<T>, mpsc::Receiver<T>))
        ensures queue_of_stx(&r.0) == queue_of_rx(&r.1);
    pub assume_specification<T: std::cmp::Ord + std::marker::Destruct> [std::cmp::min] (a: T, b: T) -> (r: T)
        ensures <T as vstd::std_specs::cmp::OrdSpec>::obeys_cmp_spec() ==> r == (if vstd::std_specs::cmp::OrdSpec::cmp_spec(&a, &b) is Greater { b } else { a });
}
