//@ item src/sys.rs / enum Mode props=C02
//@ enditem
//@ item src/sys.rs / struct Interest props=C02
//@ enditem
//@ item src/sys.rs / impl Interest props=C02
//@ enditem
//@ item src/sys.rs / struct Readiness props=C02
//@ enditem
//@ item src/sys.rs / impl Readiness props=C02
//@ enditem
//@ item src/sys.rs / struct PollEvent props=C02
//@ enditem
//@ item src/sys.rs / struct TokenFactory props=C20,C01
//@ enditem
//@ item src/sys.rs / struct Token props=C20,C01
//@ enditem

//@ region sys_token_specs props=C20,C01
impl Token {
    pub closed spec fn tok(self) -> TokenInner { self.inner }
}
impl vstd::std_specs::cmp::PartialEqSpecImpl for Token {
    open spec fn obeys_eq_spec() -> bool { true }
    open spec fn eq_spec(&self, other: &Token) -> bool { *self == *other }
}
impl TokenFactory {
    pub closed spec fn next(&self) -> TokenInner { self.next_token }
    /// the registration token of the slot this factory was made for
    pub open spec fn reg(&self) -> RegistrationToken { RegistrationToken::of(self.next().forget()) }
    /// what one call of token() does, as a function
    pub open spec fn step(start: TokenInner, n: nat) -> TokenInner
        decreases n
    {
        if n == 0 { start } else {
            let p = Self::step(start, (n - 1) as nat);
            TokenInner::mk(p.sid(), p.sver(), p.ssub() + 1)
        }
    }
}
/// the n-th token handed out by a factory created for slot token `t` has sub-id n and t's id/generation
pub proof fn lemma_nth_token(t: TokenInner, n: nat)
    requires t.ssub() == 0, n <= 0xFFFF,
    ensures TokenFactory::step(t, n).sid() == t.sid(), TokenFactory::step(t, n).sver() == t.sver(),
            TokenFactory::step(t, n).ssub() == n,
    decreases n
{
    broadcast use TokenInner::lemma_ranges;
    if n > 0 {
        lemma_nth_token(t, (n - 1) as nat);
        let p = TokenFactory::step(t, (n - 1) as nat);
        TokenInner::lemma_mk(p.sid(), p.sver(), p.ssub() + 1);
    }
}
/// sub-tokens of one source are pairwise distinct (distinct poller keys) and belong to the source
pub proof fn lemma_subtokens_distinct(t: TokenInner, i: nat, j: nat)
    requires t.ssub() == 0, i <= 0xFFFF, j <= 0xFFFF, i != j,
    ensures TokenFactory::step(t, i).key() != TokenFactory::step(t, j).key(),
            TokenFactory::step(t, i).same_src(t), TokenFactory::step(t, j).same_src(t),
{
    lemma_nth_token(t, i);
    lemma_nth_token(t, j);
}
//@ endregion

//@ open src/sys.rs / impl TokenFactory
//@ item src/sys.rs / impl TokenFactory / fn new props=C20,C01,C07 ret=r
//@ spec
        ensures r.next().sid() == token.sid(), r.next().sver() == token.sver(), r.next().ssub() == 0, r.next() == token.forget(),
//@ enditem
//@ item src/sys.rs / impl TokenFactory / fn registration_token props=C20,C14 ret=r
//@ entry
        proof { broadcast use TokenInner::lemma_forget, RegistrationToken::lemma_of; }
//@ spec
        ensures r.tok().sid() == self.next().sid(), r.tok().sver() == self.next().sver(), r.tok().ssub() == 0, r == self.reg(),
//@ enditem
//@ if prove_token_room
//@ item src/sys.rs / impl TokenFactory / fn token props=C20,C01 ret=r
//@ spec
        requires old(self).next().ssub() < 0xFFFF,
        ensures r.tok() == old(self).next(),
                final(self).next().sid() == old(self).next().sid(),
                final(self).next().sver() == old(self).next().sver(),
                final(self).next().ssub() == old(self).next().ssub() + 1,
                final(self).reg() == old(self).reg(),
//@ enditem
//@ else
// Callers' view (rule D6): partial correctness -- sub-id exhaustion is the documented loud failure (the real
// body panics, proved unreachable only under `sub_id < 0xFFFF` in unit systok and by the Kani should_panic
// harness), so "the call returned" implies there was room.
//@ item src/sys.rs / impl TokenFactory / fn token props=C20,C01 ret=r sigonly
//@ spec
        ensures old(self).next().ssub() < 0xFFFF,
                r.tok() == old(self).next(),
                final(self).next().sid() == old(self).next().sid(),
                final(self).next().sver() == old(self).next().sver(),
                final(self).next().ssub() == old(self).next().ssub() + 1,
                final(self).reg() == old(self).reg(),
//@ enditem
//@ endif
//@ close

//@ item src/sys.rs / fn cvt_interest props=C02,C20,C16 ret=r
//@ spec
    ensures r.key == tok.tok().key(), r.readable == interest.readable, r.writable == interest.writable,
//@ enditem
//@ item src/sys.rs / fn cvt_mode props=C02,C16 ret=r
//@ spec
    ensures !supports_other_modes ==> r is Oneshot,
            supports_other_modes ==> (mode is Edge ==> r is Edge) && (mode is Level ==> r is Level) && (mode is OneShot ==> r is Oneshot),
//@ enditem
