//@ open src/sources/mod.rs / impl EventSource for Box<T>
//@ item src/sources/mod.rs / impl EventSource for Box<T> / type Event props=C18,C01
//@ enditem
//@ item src/sources/mod.rs / impl EventSource for Box<T> / type Metadata props=C18,C01
//@ enditem
//@ item src/sources/mod.rs / impl EventSource for Box<T> / type Ret props=C18,C01
//@ enditem
//@ item src/sources/mod.rs / impl EventSource for Box<T> / type Error props=C18,C01
//@ enditem
//@ region box_protocol props=C18,C01
    // a boxed source IS its content: every ghost notion of the protocol is the content's
    open spec fn wf(&self) -> bool { (**self).wf() }
    open spec fn registered(&self) -> bool { (**self).registered() }
    open spec fn register_req(&self) -> bool { (**self).register_req() }
    open spec fn register_ens(o: &Self, n: &Self, ok: bool) -> bool { T::register_ens(&**o, &**n, ok) }
    open spec fn reregister_req(&self) -> bool { (**self).reregister_req() }
    open spec fn reregister_ens(o: &Self, n: &Self, ok: bool) -> bool { T::reregister_ens(&**o, &**n, ok) }
    open spec fn unregister_req(&self) -> bool { (**self).unregister_req() }
    open spec fn unregister_ens(o: &Self, n: &Self, ok: bool) -> bool { T::unregister_ens(&**o, &**n, ok) }
    open spec fn process_req(&self) -> bool { (**self).process_req() }
    open spec fn may_call(&self, readiness: Readiness, token: Token, e: T::Event) -> bool { (**self).may_call(readiness, token, e) }
    open spec fn cb_req<CbF: FnMut(T::Event, &mut T::Metadata) -> T::Ret>(&self, readiness: Readiness, token: Token, callback: CbF) -> bool {
        (**self).cb_req(readiness, token, callback)
    }
    open spec fn process_ens(o: &Self, n: &Self, readiness: Readiness, token: Token, r: Result<PostAction, T::Error>) -> bool {
        T::process_ens(&**o, &**n, readiness, token, r)
    }
//@ endregion
//@ item src/sources/mod.rs / impl EventSource for Box<T> / fn process_events props=C18,C01 ret=r
//@ rw R8 1 <<process_events<F>>> => <<process_events<CbF>>>
//@ rw R8 1 <<callback: F,>> => <<callback: CbF,>>
//@ rw R8 1 <<F: FnMut(Self::Event>> => <<CbF: FnMut(Self::Event>>
//@ enditem
//@ item src/sources/mod.rs / impl EventSource for Box<T> / fn register props=C18,C01
//@ enditem
//@ item src/sources/mod.rs / impl EventSource for Box<T> / fn reregister props=C18,C01
//@ enditem
//@ item src/sources/mod.rs / impl EventSource for Box<T> / fn unregister props=C18,C01
//@ enditem
//@ item src/sources/mod.rs / impl EventSource for Box<T> / const NEEDS_EXTRA_LIFECYCLE_EVENTS props=C14
//@ enditem
//@ item src/sources/mod.rs / impl EventSource for Box<T> / fn before_sleep props=C14
//@ enditem
//@ item src/sources/mod.rs / impl EventSource for Box<T> / fn before_handle_events props=C14
//@ enditem
//@ close

//@ open src/sources/mod.rs / impl EventSource for &mut T
//@ item src/sources/mod.rs / impl EventSource for &mut T / type Event props=C18,C01
//@ enditem
//@ item src/sources/mod.rs / impl EventSource for &mut T / type Metadata props=C18,C01
//@ enditem
//@ item src/sources/mod.rs / impl EventSource for &mut T / type Ret props=C18,C01
//@ enditem
//@ item src/sources/mod.rs / impl EventSource for &mut T / type Error props=C18,C01
//@ enditem
//@ region refmut_protocol props=C18,C01
    // an exclusive reference to a source IS the source: every ghost notion of the protocol is the referent's
    open spec fn wf(&self) -> bool { (**self).wf() }
    open spec fn registered(&self) -> bool { (**self).registered() }
    open spec fn register_req(&self) -> bool { (**self).register_req() }
    open spec fn register_ens(o: &Self, n: &Self, ok: bool) -> bool { T::register_ens(&**o, &**n, ok) }
    open spec fn reregister_req(&self) -> bool { (**self).reregister_req() }
    open spec fn reregister_ens(o: &Self, n: &Self, ok: bool) -> bool { T::reregister_ens(&**o, &**n, ok) }
    open spec fn unregister_req(&self) -> bool { (**self).unregister_req() }
    open spec fn unregister_ens(o: &Self, n: &Self, ok: bool) -> bool { T::unregister_ens(&**o, &**n, ok) }
    open spec fn process_req(&self) -> bool { (**self).process_req() }
    open spec fn may_call(&self, readiness: Readiness, token: Token, e: T::Event) -> bool { (**self).may_call(readiness, token, e) }
    open spec fn cb_req<CbF: FnMut(T::Event, &mut T::Metadata) -> T::Ret>(&self, readiness: Readiness, token: Token, callback: CbF) -> bool {
        (**self).cb_req(readiness, token, callback)
    }
    open spec fn process_ens(o: &Self, n: &Self, readiness: Readiness, token: Token, r: Result<PostAction, T::Error>) -> bool {
        T::process_ens(&**o, &**n, readiness, token, r)
    }
//@ endregion
//@ item src/sources/mod.rs / impl EventSource for &mut T / fn process_events props=C18,C01 ret=r
//@ rw R8 1 <<process_events<F>>> => <<process_events<CbF>>>
//@ rw R8 1 <<callback: F,>> => <<callback: CbF,>>
//@ rw R8 1 <<F: FnMut(Self::Event>> => <<CbF: FnMut(Self::Event>>
//@ enditem
//@ item src/sources/mod.rs / impl EventSource for &mut T / fn register props=C18,C01
//@ enditem
//@ item src/sources/mod.rs / impl EventSource for &mut T / fn reregister props=C18,C01
//@ enditem
//@ item src/sources/mod.rs / impl EventSource for &mut T / fn unregister props=C18,C01
//@ enditem
//@ item src/sources/mod.rs / impl EventSource for &mut T / const NEEDS_EXTRA_LIFECYCLE_EVENTS props=C14
//@ enditem
//@ item src/sources/mod.rs / impl EventSource for &mut T / fn before_sleep props=C14
//@ enditem
//@ item src/sources/mod.rs / impl EventSource for &mut T / fn before_handle_events props=C14
//@ enditem
//@ close
