//@ item src/loop_logic.rs / type IdleCallback props=C13
//@ enditem
//@ item src/loop_logic.rs / struct LoopInner props=C15,C06
//@ pre
#[verifier::reject_recursive_types(Data)]
//@ enditem
//@ item src/loop_logic.rs / struct LoopHandle props=C15,C06
//@ pre
#[verifier::reject_recursive_types(Data)]
//@ enditem

