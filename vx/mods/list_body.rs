//@ item src/list.rs / struct SourceEntry props=C01,C06
//@ rw R6 1 <<pub(crate) struct SourceEntry>> => <<pub struct SourceEntry>>
//@ rw R6 1 <<pub(crate) token: TokenInner,>> => <<pub token: TokenInner,>>
//@ rw R6 1 <<pub(crate) source: Option>> => <<pub source: Option>>
//@ pre
#[verifier::reject_recursive_types(Data)]
//@ enditem
//@ item src/list.rs / struct SourceList props=C01,C06
//@ pre
#[verifier::reject_recursive_types(Data)]
//@ enditem

//@ region list_specs props=C01,C06,C15
impl<'l, Data> SourceEntry<'l, Data> {
    pub open spec fn tok(&self) -> TokenInner { self.token }
    pub open spec fn vacant(&self) -> bool { self.source is None }
    pub open spec fn disp(&self) -> Option<Rc<dyn EventDispatcher<Data> + 'l>> { self.source }
}
impl<'l, Data> SourceList<'l, Data> {
    /// abstract view: the slot sequence
    pub closed spec fn view(&self) -> Seq<SourceEntry<'l, Data>> { self.sources@ }
    /// representation invariant: slot i carries id i and sub-id 0
    pub open spec fn wf(&self) -> bool {
        &&& self@.len() <= 0x1_0000_0000
        &&& forall|i: int| 0 <= i < self@.len() ==> (#[trigger] self@[i]).tok().sid() == i && self@[i].tok().ssub() == 0
    }
    /// the slot a token addresses right now (generation checked), if any
    pub open spec fn lookup(&self, t: TokenInner) -> Option<int> {
        if t.sid() < self@.len() && self@[t.sid()].tok().same_src(t) { Some(t.sid()) } else { None }
    }
    /// monotone history witness (DESIGN 2.12): `get` has been called with this token (a generation-checked lookup was made)
    #[verifier::opaque]
    pub closed spec fn looked_up(t: TokenInner) -> bool { true }
    /// first vacant slot
    pub open spec fn first_vacant(&self, j: int) -> bool {
        &&& 0 <= j < self@.len() && self@[j].vacant()
        &&& forall|k: int| 0 <= k < j ==> !(#[trigger] self@[k]).vacant()
    }
}
//@ endregion

//@ open src/list.rs / impl SourceList<'l, Data>
//@ item src/list.rs / impl SourceList<'l, Data> / fn new props=C01,C06 ret=r
//@ spec
        ensures r@.len() == 0, r.wf(),
//@ enditem
//@ item src/list.rs / impl SourceList<'l, Data> / fn vacant_entry props=C01,C06,C15 ret=r
//@ closure <<|slot| slot.source.is_none()>>
-> (b: bool) ensures b == slot.vacant()
//@ spec
        requires old(self).wf(), old(self)@.len() < 0x1_0000_0000,
        ensures
            // the returned slot is vacant, lives at index r.token.id, and carries id = index, sub-id 0
            r.vacant(),
            0 <= r.tok().sid() < final(self)@.len(),
            r.tok().ssub() == 0,
            *final(r) == final(self)@[r.tok().sid()],
            // reuse: first vacant slot, generation bumped by one (mod 2^16); otherwise a fresh slot, generation 0
            r.tok().sid() < old(self)@.len() ==> {
                &&& old(self).first_vacant(r.tok().sid())
                &&& final(self)@.len() == old(self)@.len()
                &&& r.tok().sver() == (old(self)@[r.tok().sid()].tok().sver() + 1) % 0x1_0000
            },
            r.tok().sid() >= old(self)@.len() ==> {
                &&& r.tok().sid() == old(self)@.len()
                &&& final(self)@.len() == old(self)@.len() + 1
                &&& r.tok().sver() == 0
                &&& forall|j: int| 0 <= j < old(self)@.len() ==> !(#[trigger] old(self)@[j]).vacant()
            },
            // frame: no other slot changes (token and dispatcher)
            forall|i: int| 0 <= i < old(self)@.len() && i != r.tok().sid() ==> final(self)@[i] == old(self)@[i],
            // once the caller is done with the slot, the list is well formed again provided id/sub-id were kept
            (final(r).tok().sid() == r.tok().sid() && final(r).tok().ssub() == 0) ==> final(self).wf(),
//@ enditem
//@ item src/list.rs / impl SourceList<'l, Data> / fn release_entry props=C01,C06,C15 optional
//@ spec
        // (There is no such function in the unchanged tree. Three independent seed agents introduced a helper of exactly this
        //  name and signature for the failure path of register_dispatcher; if it exists it is held to what C06 / C15 / C01 ask
        //  of ANY way of giving a slot back.)
        requires old(self).wf(),
        ensures
            final(self).wf(),
            // the slot list never shrinks: a slot's generation history outlives its occupants, or a token is handed out twice
            final(self)@.len() == old(self)@.len(),
            forall|i: int| 0 <= i < old(self)@.len() ==> (#[trigger] final(self)@[i]).tok() == old(self)@[i].tok(),
            // only the addressed slot may change
            forall|i: int| 0 <= i < old(self)@.len() && i != token.sid() ==> #[trigger] final(self)@[i] == old(self)@[i],
//@ enditem
//@ item src/list.rs / impl SourceList<'l, Data> / fn get props=C01,C06,C02 ret=r
//@ entry
        proof { reveal(SourceList::looked_up); }
//@ spec
        ensures
            Self::looked_up(token),
            self.lookup(token) matches Some(i) ==> r is Ok && *r->Ok_0 == self@[i],
            self.lookup(token) is None ==> r is Err && r->Err_0 is InvalidToken,
//@ enditem
//@ item src/list.rs / impl SourceList<'l, Data> / fn get_mut props=C01,C06 ret=r
//@ spec
        ensures
            old(self).lookup(token) matches Some(i) ==> r is Ok && *r->Ok_0 == old(self)@[i]
                && final(self)@.len() == old(self)@.len() && *final(r->Ok_0) == final(self)@[i]
                && (forall|k: int| 0 <= k < old(self)@.len() && k != i ==> final(self)@[k] == old(self)@[k]),
            old(self).lookup(token) is None ==> r is Err && r->Err_0 is InvalidToken && final(self)@ == old(self)@,
//@ enditem
//@ close

//@ region list_lemmas props=C01,C06
/// Stale tokens are dead: a token that matched slot j is rejected by get/get_mut once the slot has been
/// re-issued k times, for every 1 <= k < 65536 (vacant_entry bumps the generation by one each time).
pub proof fn lemma_stale_token_dead<'l, Data>(l: SourceList<'l, Data>, t: TokenInner, v0: int, k: nat)
    requires
        l.wf(), 0 <= t.sid() < l@.len(), t.sver() == v0, 0 <= v0 < 0x1_0000,
        1 <= k < 0x1_0000,
        l@[t.sid()].tok().sver() == crate::token::bump(v0, k),
    ensures l.lookup(t) is None,
{
    crate::token::lemma_bump_never_returns(v0, k);
}
//@ endregion
