pub mod signals {
use vstd::prelude::*;
use std::io::Error as IoError;
use crate::nix::sys::signal::SigSet;
use crate::nix::sys::signalfd::{siginfo, SfdFlags, SignalFd};
use crate::nix;
use super::generic::{FdWrapper, Generic, NoIoDrop};
use crate::{EventSource, Interest, Mode, Poll, PostAction, Readiness, Token, TokenFactory};
//@ include signals_body
} // mod signals
