//@ region idle_loop_specs props=C13
/// ASSUMPTION carrier (as all_accept for sources): what sits behind an idle slot's RefCell is opaque here, so the
/// precondition of its dispatch (callability of the stored closure) is assumed.
pub closed spec fn all_idles_accept<Data>() -> bool {
    forall|i: &mut dyn IdleDispatcher<Data>| #[trigger] i.dispatch_req()
}
impl<'l, Data> EventLoop<'l, Data> {
    /// typestate markers (ghost, uninterpreted; DESIGN 2.12): `events_done` is produced only by a dispatch_events call
    /// that returned Ok, `idles_done` only by a dispatch_idles call.
    pub uninterp spec fn events_done(&self) -> bool;
    pub uninterp spec fn idles_done(&self) -> bool;
}
/// identity stand-ins for the two unsizing coercions in insert_idle (rule R15)
#[verifier::external_body]
fn unsize_idle_dispatcher<'l, Data, G: FnMut(&mut Data) + 'l>(c: Rc<RefCell<Option<G>>>) -> IdleCallback<'l, Data> { c }
#[verifier::external_body]
fn unsize_cancellable_idle<'i, G: 'i>(c: Rc<RefCell<Option<G>>>) -> Rc<RefCell<dyn crate::sources::CancellableIdle + 'i>> { c }
//@ endregion

impl<'l, Data> EventLoop<'l, Data> {
//@ slice src/loop_logic.rs / impl EventLoop<'l, Data> / fn dispatch_idles :: body props=C13 name=EventLoop::dispatch_idles
//@ rw R10 1/* <<self.handle.inner.idles.borrow_mut()>> => <<idles_cell>>
//@ rw R10 2+/* <<self.handle.inner.idles.borrow_mut()>> => <<idles_cell_later>>
//@ sig
/// S1 slice: the whole body of EventLoop::dispatch_idles. Rule R10: the first borrow of the idle-list cell becomes the
/// parameter `idles_cell`; ANY later borrow of that cell would become `idles_cell_later` (there is none in the real
/// text): user code runs between the two (the idle callbacks may insert new idles), so they are unrelated values.
fn dispatch_idles_body(&mut self, idles_cell: &mut Vec<IdleCallback<'l, Data>>, idles_cell_later: &mut Vec<IdleCallback<'l, Data>>, data: &mut Data)
//@ spec
    requires all_idles_accept::<Data>(),
    ensures
        // C13: the queue is taken wholesale BEFORE anything runs, so an idle inserted by an idle callback lands in the
        // fresh queue and runs in the following dispatch ...
        final(idles_cell)@.len() == 0,
        // ... and dispatch_idles never touches the queue again after that (it would clobber such insertions)
        final(idles_cell_later)@ == old(idles_cell_later)@,
//@ entry
    let ghost taken = idles_cell@;
    let ghost mut ran: Seq<IdleCallback<'l, Data>> = Seq::empty();
//@ loop 1
        invariant
            all_idles_accept::<Data>(),
            idles_cell@.len() == 0,
            *idles_cell_later == *old(idles_cell_later),
            lit.seq() == taken,
            // C13: every idle of the taken queue is run exactly once, in insertion order
            ran == taken.take(lit.index@ as int),
//@ after <<idle.borrow_mut().dispatch(>>
            proof { ran = ran.push(idle); }
//@ rw R14 1 <<for idle in idles>> => <<for idle in lit: idles>>
//@ tail
    proof { assert(ran == taken); } /*@props C13*/
//@ alt
//@ rw R10 1/* <<self.handle.inner.idles.borrow_mut()>> => <<idles_cell>>
//@ rw R10 2+/* <<self.handle.inner.idles.borrow_mut()>> => <<idles_cell_later>>
//@ entry
    // (alternative overlay for a body that walks the taken queue with `idles.drain(..)` -- typically in order to hand the
    //  emptied buffer back afterwards; same contract, so writing to the queue after the callbacks ran is REPORTED)
    let ghost taken = idles_cell@;
    let ghost mut ran: Seq<IdleCallback<'l, Data>> = Seq::empty();
//@ loop 1
        invariant
            all_idles_accept::<Data>(),
            idles_cell@.len() == 0,
            *idles_cell_later == *old(idles_cell_later),
            lit.seq() == taken,
            ran == taken.take(lit.index@ as int),
//@ after <<idle.borrow_mut().dispatch(>>
            proof { ran = ran.push(idle); }
//@ rw R20 1 <<for idle in idles.drain(..)>> => <<for idle in lit: crate::ext_vec::drain_all(&mut idles)>>
//@ tail
    proof { assert(ran == taken); } /*@props C13*/
//@ endslice
}

//@ open src/loop_logic.rs / impl EventLoop<'l, Data>
//@ item src/loop_logic.rs / impl EventLoop<'l, Data> / fn dispatch_events props=C13 sigonly ret=r
//@ spec
        ensures r is Ok ==> final(self).events_done(),
                // frame (ASSUMED for the whole function; its slices never touch the field): the shared stop flag is the same object
                final(self).stop_flag() == old(self).stop_flag(), final(self).ready_flag() == old(self).ready_flag(),
//@ enditem
//@ item src/loop_logic.rs / impl EventLoop<'l, Data> / fn dispatch_idles props=C13 sigonly
//@ spec
        // C13: idle callbacks run only after the source callbacks of a dispatch whose event phase succeeded
        requires old(self).events_done(),
        ensures final(self).idles_done(), final(self).stop_flag() == old(self).stop_flag(), final(self).ready_flag() == old(self).ready_flag(),
//@ enditem
//@ item src/loop_logic.rs / impl EventLoop<'l, Data> / fn dispatch props=C13 ret=r
//@ rw R12 * <<Duration::ZERO>> => <<crate::ext_dur::duration_zero()>>
//@ spec
        ensures
            // C13: a dispatch that returns Ok has run the idle phase (after the event phase) ...
            r is Ok ==> final(self).idles_done(),
            final(self).stop_flag() == old(self).stop_flag(),
//@ enditem
//@ close

impl<'l, Data> LoopHandle<'l, Data> {
//@ slice src/loop_logic.rs / impl LoopHandle<'l, Data> / fn insert_idle :: closure 1 props=C13 name=LoopHandle::insert_idle::once_wrapper
//@ sig
/// S1 slice: the body of the closure insert_idle wraps the user's FnOnce in (a `move` closure mutating its captured
/// `opt_cb`, which Verus cannot take as a closure). Captured `opt_cb` and the argument `data` become parameters.
fn insert_idle_once_wrapper<F: FnOnce(&mut Data)>(opt_cb: &mut Option<F>, data: &mut Data)
//@ spec
    requires
        *old(opt_cb) matches Some(cb) ==> forall|d: &mut Data| #[trigger] call_requires(cb, (d,)),
    ensures
        // C13: the user's callback is consumed by its first run: however often the wrapper is dispatched afterwards,
        // it can never run a second time
        *final(opt_cb) is None,
        // ... and its first run DOES call it (must-call): the wrapper does not swallow the user's callback
        *old(opt_cb) matches Some(cb) ==> exists|d0: &mut Data| #[trigger] call_ensures(cb, (d0,), ()),
//@ endslice

//@ slice src/loop_logic.rs / impl LoopHandle<'l, Data> / fn insert_idle :: stmts <<self.inner.idles.borrow_mut()>> .. <<Idle {>> props=C13 name=LoopHandle::insert_idle::enqueue
//@ rw R10 1 <<self.inner.idles.borrow_mut()>> => <<idles_cell>>
//@ rw R15 * <<callback.clone()>> => <<unsize_idle_dispatcher(callback.clone())>>
//@ rw R15 1 <<Idle { callback }>> => <<Idle { callback: unsize_cancellable_idle(callback) }>>
//@ sig
/// Rule R15: the two implicit unsizing coercions (Rc<RefCell<Option<G>>> to Rc<RefCell<dyn ..>>), which Verus does not
/// support, are made explicit as calls of identity stand-ins.
/// S1 slice: the last two statements of insert_idle (queue the wrapped callback, hand out the cancel handle). Free
/// variable `callback` (the Rc<RefCell<Option<wrapper closure>>> built just before) becomes a parameter, generic in the
/// closure type; rule R10: the borrow of the idle-list cell becomes `idles_cell`.
fn insert_idle_enqueue<'i, G: FnMut(&mut Data) + 'l + 'i>(&self, idles_cell: &mut Vec<IdleCallback<'l, Data>>, callback: Rc<RefCell<Option<G>>>) -> (r: Idle<'i>)
//@ spec
    ensures
        // C13 (insertion order): the new idle goes to the END of the queue, nothing already queued moves or disappears
        final(idles_cell)@.len() == old(idles_cell)@.len() + 1,
        forall|k: int| 0 <= k < old(idles_cell)@.len() ==> final(idles_cell)@[k] == old(idles_cell)@[k],
//@ endslice
}
