//@ item src/loop_logic.rs / struct RegistrationToken props=C20,C01,C06,C14
//@ enditem
//@ region regtoken_specs props=C20
impl RegistrationToken {
    pub closed spec fn tok(self) -> TokenInner { self.inner }
}
//@ endregion
//@ open src/loop_logic.rs / impl RegistrationToken
//@ item src/loop_logic.rs / impl RegistrationToken / fn new props=C20,C14 ret=r
//@ spec
        ensures r.tok() == inner,
//@ enditem
//@ close
