//@ item src/loop_logic.rs / struct RegistrationToken props=C20,C01,C06,C14
//@ enditem
//@ region regtoken_specs props=C20
impl RegistrationToken {
    pub closed spec fn tok(self) -> TokenInner { self.inner }
    pub closed spec fn of(t: TokenInner) -> RegistrationToken { RegistrationToken { inner: t } }
    pub broadcast proof fn lemma_of(t: TokenInner)
        ensures #[trigger] Self::of(t).tok() == t,
    {}
    pub proof fn lemma_of_tok(self)
        ensures Self::of(self.tok()) == self,
    {}
}
impl vstd::std_specs::cmp::PartialEqSpecImpl for RegistrationToken {
    open spec fn obeys_eq_spec() -> bool { true }
    open spec fn eq_spec(&self, other: &RegistrationToken) -> bool { *self == *other }
}
//@ endregion
//@ open src/loop_logic.rs / impl RegistrationToken
//@ item src/loop_logic.rs / impl RegistrationToken / fn new props=C20,C14 ret=r
//@ spec
        ensures r.tok() == inner, r == Self::of(inner),
//@ enditem
//@ close
