//@ item src/sources/timer.rs / struct TimeoutData props=C05
//@ enditem
//@ item src/sources/timer.rs / struct TimerWheel props=C05
//@ enditem
