//@ item src/sources/timer.rs / struct TimeoutData props=C05
//@ rw R6 1 <<struct TimeoutData {>> => <<pub(crate) struct TimeoutData {>>
//@ enditem
//@ item src/sources/timer.rs / struct TimerWheel props=C05
//@ enditem
