//@ if timer_real
//@ item src/sources/timer.rs / struct TimeoutData props=C05
//@ rw R6 1 <<struct TimeoutData {>> => <<pub(crate) struct TimeoutData {>>
//@ enditem
//@ item src/sources/timer.rs / struct TimerWheel props=C05
//@ enditem
//@ else
//@ region timer_types_opaque
/// Units that do not look inside the timer wheel see it as an opaque type (rule D1): an edit of its fields then concerns
/// only the units that verify timer code (timerwheel, timer, pollslices).
#[verifier::external_body] #[derive(Debug)]
pub(crate) struct TimerWheel { _p: () }
impl TimerWheel {
    /// no arming yet (defined in the units that look inside the wheel)
    pub uninterp spec fn is_fresh(&self) -> bool;
}
//@ endregion
//@ endif
