//@ item src/token.rs / const BITS_VERSION props=C20
//@ enditem
//@ item src/token.rs / const BITS_SUBID props=C20
//@ enditem
//@ item src/token.rs / const MASK_VERSION props=C20
//@ spec
    ensures MASK_VERSION == 0xFFFF
//@ entry
    proof { assert((1usize << 16usize) == 0x10000usize) by (bit_vector); }
//@ enditem
//@ item src/token.rs / const MASK_SUBID props=C20
//@ spec
    ensures MASK_SUBID == 0xFFFF
//@ entry
    proof { assert((1usize << 16usize) == 0x10000usize) by (bit_vector); }
//@ enditem

//@ item src/token.rs / struct TokenInner props=C20,C01
//@ enditem

//@ region token_specs props=C20,C01,C06
impl TokenInner {
    pub closed spec fn sid(self) -> int { self.id as int }
    pub closed spec fn sver(self) -> int { self.version as int }
    pub closed spec fn ssub(self) -> int { self.sub_id as int }
    /// The poller key of the property statement: id * 2^32 + generation * 2^16 + sub-id.
    pub open spec fn key(self) -> int { self.sid() * 0x1_0000_0000 + self.sver() * 0x1_0000 + self.ssub() }
    pub open spec fn same_src(self, o: TokenInner) -> bool { self.sid() == o.sid() && self.sver() == o.sver() }
    /// the slot token a (sub-)token belongs to
    pub closed spec fn forget(self) -> TokenInner { TokenInner { id: self.id, version: self.version, sub_id: 0 } }
    pub broadcast proof fn lemma_forget(self)
        ensures #[trigger] self.forget().sid() == self.sid(), self.forget().sver() == self.sver(), self.forget().ssub() == 0,
    {}
    pub broadcast proof fn lemma_forget_idem(self)
        ensures #[trigger] self.forget().forget() == self.forget(),
    {}
    pub proof fn lemma_forget_eq(a: TokenInner, b: TokenInner)
        ensures a.same_src(b) <==> a.forget() == b.forget(),
    {}
    pub closed spec fn mk(id: int, ver: int, sub: int) -> TokenInner {
        TokenInner { id: id as u32, version: ver as u16, sub_id: sub as u16 }
    }
    pub broadcast proof fn lemma_ranges(self)
        ensures 0 <= #[trigger] self.sid() <= 0xFFFF_FFFF, 0 <= self.sver() <= 0xFFFF, 0 <= self.ssub() <= 0xFFFF,
    {}
    pub proof fn lemma_mk(id: int, ver: int, sub: int)
        requires 0 <= id <= 0xFFFF_FFFF, 0 <= ver <= 0xFFFF, 0 <= sub <= 0xFFFF,
        ensures Self::mk(id, ver, sub).sid() == id, Self::mk(id, ver, sub).sver() == ver, Self::mk(id, ver, sub).ssub() == sub,
    {}
    pub proof fn lemma_ext(a: TokenInner, b: TokenInner)
        requires a.sid() == b.sid(), a.sver() == b.sver(), a.ssub() == b.ssub(),
        ensures a == b,
    {}
}
//@ endregion

//@ open src/token.rs / impl TokenInner
//@ item src/token.rs / impl TokenInner / fn new props=C20,C01 ret=r
//@ spec
        ensures
            id <= 0xFFFF_FFFF ==> r is Ok && r->Ok_0.sid() == id && r->Ok_0.sver() == 0 && r->Ok_0.ssub() == 0,
            id > 0xFFFF_FFFF ==> r is Err,
//@ enditem
//@ item src/token.rs / impl TokenInner / fn get_id props=C20,C01 ret=r
//@ spec
        ensures r == self.sid(),
//@ enditem
//@ item src/token.rs / impl TokenInner / fn same_source_as props=C20,C01,C06 ret=r
//@ spec
        ensures r == self.same_src(other),
//@ enditem
//@ item src/token.rs / impl TokenInner / fn increment_version props=C20,C01,C06 ret=r
//@ spec
        ensures r.sid() == self.sid(), r.ssub() == 0, r.sver() == (self.sver() + 1) % 0x1_0000,
//@ entry
        proof { assert(forall|x: u16| #[trigger] (x & 0xFFFFu16) == x) by (bit_vector); }
//@ enditem
//@ item src/token.rs / impl TokenInner / fn increment_sub_id props=C20,C01 ret=r
//@ spec
        requires self.ssub() < 0xFFFF,
        ensures r.sid() == self.sid(), r.sver() == self.sver(), r.ssub() == self.ssub() + 1, r.forget() == self.forget(),
//@ enditem
//@ item src/token.rs / impl TokenInner / fn forget_sub_id props=C20,C01 ret=r
//@ spec
        ensures r.sid() == self.sid(), r.sver() == self.sver(), r.ssub() == 0, r == self.forget(),
//@ enditem
//@ close

//@ region token_from_specs props=C20
impl vstd::std_specs::cmp::PartialEqSpecImpl for TokenInner {
    open spec fn obeys_eq_spec() -> bool { true }
    open spec fn eq_spec(&self, other: &TokenInner) -> bool { *self == *other }
}
impl vstd::std_specs::convert::FromSpecImpl<usize> for TokenInner {
    open spec fn obeys_from_spec() -> bool { true }
    open spec fn from_spec(value: usize) -> TokenInner {
        TokenInner::mk((value as int) / 0x1_0000_0000, ((value as int) / 0x1_0000) % 0x1_0000, (value as int) % 0x1_0000)
    }
}
impl vstd::std_specs::convert::FromSpecImpl<TokenInner> for usize {
    open spec fn obeys_from_spec() -> bool { true }
    open spec fn from_spec(token: TokenInner) -> usize { token.key() as usize }
}
//@ endregion

//@ open src/token.rs / impl From<usize> for TokenInner
//@ item src/token.rs / impl From<usize> for TokenInner / fn from props=C20,C01 ret=r
//@ spec
        ensures r.key() == value,
//@ entry
        proof {
            let v = value as u64;
            assert(((v & 0xFFFFu64) as u16) as u64 == v % 0x1_0000) by (bit_vector);
            assert((((v >> 16u64) & 0xFFFFu64) as u16) as u64 == (v / 0x1_0000) % 0x1_0000) by (bit_vector);
            assert(((v >> 32u64) as u32) as u64 == v / 0x1_0000_0000) by (bit_vector);
            assert((16usize + 16usize) == 32usize);
        }
//@ enditem
//@ close

//@ open src/token.rs / impl From<TokenInner> for usize
//@ item src/token.rs / impl From<TokenInner> for usize / fn from props=C20,C01 ret=r
//@ spec
        ensures r == token.key(),
//@ entry
        proof {
            let i = token.id as u64; let w = token.version as u64;
            assert(i << 32u64 == i * 0x1_0000_0000) by (bit_vector) requires i <= 0xFFFF_FFFFu64;
            assert(w << 16u64 == w * 0x1_0000) by (bit_vector) requires w <= 0xFFFFu64;
        }
//@ enditem
//@ close

//@ region token_lemmas props=C20,C01,C06
/// pack/unpack are inverse, the key is injective
pub proof fn lemma_key_injective(a: TokenInner, b: TokenInner)
    requires a.key() == b.key(),
    ensures a == b,
{
    broadcast use TokenInner::lemma_ranges;
    // linear arithmetic only (no div/mod): the three fields are digits of the key in base 2^16 / 2^32
    if a.sid() < b.sid() { assert(a.key() < (a.sid() + 1) * 0x1_0000_0000); assert(false); }
    if b.sid() < a.sid() { assert(b.key() < (b.sid() + 1) * 0x1_0000_0000); assert(false); }
    if a.sver() < b.sver() { assert(false); }
    if b.sver() < a.sver() { assert(false); }
    TokenInner::lemma_ext(a, b);
}

pub proof fn lemma_key_range(a: TokenInner)
    ensures 0 <= a.key() <= 0xFFFF_FFFF_FFFF_FFFF,
{
    broadcast use TokenInner::lemma_ranges;
}

/// the key equals the poller's reserved notification key (usize::MAX) only for the all-ones triple,
/// hence never for a slot index below 2^32-1
pub proof fn lemma_key_not_notify(a: TokenInner)
    requires a.sid() < 0xFFFF_FFFF,
    ensures a.key() != usize::MAX as int,
{
    broadcast use TokenInner::lemma_ranges;
}

/// k generation bumps, 1 <= k < 65536, never return to the starting generation
pub open spec fn bump(v: int, k: nat) -> int
    decreases k
{
    if k == 0 { v } else { (bump(v, (k - 1) as nat) + 1) % 0x1_0000 }
}

pub proof fn lemma_bump_closed(v: int, k: nat)
    requires 0 <= v < 0x1_0000,
    ensures bump(v, k) == (v + k) % 0x1_0000,
    decreases k
{
    if k > 0 {
        lemma_bump_closed(v, (k - 1) as nat);
        assert(((v + (k - 1)) % 0x1_0000 + 1) % 0x1_0000 == (v + k) % 0x1_0000) by (nonlinear_arith)
            requires 0 <= v, k >= 1;
    }
}

pub proof fn lemma_bump_never_returns(v: int, k: nat)
    requires 0 <= v < 0x1_0000, 1 <= k < 0x1_0000,
    ensures bump(v, k) != v,
{
    lemma_bump_closed(v, k);
}
//@ endregion
