//@ item src/sources/channel.rs / const MAX_EVENTS_CHECK props=C04,C02
//@ enditem
//@ item src/sources/channel.rs / enum Event props=C04
//@ enditem
//@ item src/sources/channel.rs / struct PingOnDrop props=C04
//@ enditem
//@ item src/sources/channel.rs / struct Sender props=C04
//@ pre
#[verifier::reject_recursive_types(T)]
//@ enditem
//@ item src/sources/channel.rs / struct SyncSender props=C04
//@ pre
#[verifier::reject_recursive_types(T)]
//@ enditem
//@ region pingondrop_specs props=C04
impl PingOnDrop {
    pub closed spec fn handle(&self) -> Ping { self.0 }
}
//@ endregion
//@ open src/sources/channel.rs / impl ops::Deref for PingOnDrop
//@ item src/sources/channel.rs / impl ops::Deref for PingOnDrop / type Target props=C04
//@ enditem
//@ item src/sources/channel.rs / impl ops::Deref for PingOnDrop / fn deref props=C04 ret=r
//@ spec
        ensures *r == self.handle(),
//@ enditem
//@ close
impl PingOnDrop {
//@ slice src/sources/channel.rs / impl Drop for PingOnDrop / fn drop :: body props=C04 name=PingOnDrop::drop
//@ sig
    /// S1 slice: the whole body of `impl Drop for PingOnDrop` as an ordinary method (a Drop impl must be
    /// `opens_invariants none / no_unwind` for Verus, which Ping::ping does not declare).
    fn ping_on_drop_body(&mut self)
//@ spec
        requires
            crate::sources::ping::eventfd::may_send(old(self).handle().raw(), 2),
            crate::rustix::io::may_write(old(self).handle().raw(), crate::sources::ping::eventfd::ne_bytes(2)),
        ensures
            // C04 (then exactly one Closed): the guard shared by all clones of a sender wakes the loop when the last of them
            // goes away -- without this wake-up the loop never looks at the queue again and never sees it disconnected
            crate::rustix::io::w_write_called(old(self).handle().raw(), crate::sources::ping::eventfd::ne_bytes(2)),
//@ endslice
}
//@ region channel_fullping props=C04
/// the loop has been woken because a try_send found the queue full (opaque: it IS a write of the wake-up, but callers must
/// not use it as the wake-up that follows their own enqueue)
#[verifier::opaque] pub closed spec fn w_full_ping(fd: int) -> bool { crate::rustix::io::w_write_called(fd, crate::sources::ping::eventfd::ne_bytes(2)) }
//@ endregion
//@ region channel_mustcall_specs props=C04
/// the event has been handed to the channel's callback
pub uninterp spec fn w_event_delivered<T>(e: Event<T>) -> bool;
//@ endregion
//@ region channel_sender_specs props=C04
impl<T> Sender<T> {
    /// the eventfd this sender wakes (ghost)
    pub closed spec fn wake_fd(&self) -> int { self.ping.handle().raw() }
    pub closed spec fn queue(&self) -> mpsc::Sender<T> { self.sender }
}
impl<T> SyncSender<T> {
    pub closed spec fn wake_fd(&self) -> int { self.ping.handle().raw() }
    pub closed spec fn queue(&self) -> mpsc::SyncSender<T> { self.sender }
}
//@ endregion
//@ open src/sources/channel.rs / impl Clone for Sender<T>
//@ item src/sources/channel.rs / impl Clone for Sender<T> / fn clone props=C04 ret=r
//@ rw R23 1 <<self.ping.clone()>> => <<ping_clone(&self.ping)>>
//@ spec
        ensures
            // C04: a cloned sender feeds the same queue and wakes the same source
            queue_of_tx(&r.queue()) == queue_of_tx(&self.queue()), r.wake_fd() == self.wake_fd(),
//@ enditem
//@ close
//@ open src/sources/channel.rs / impl Clone for SyncSender<T>
//@ item src/sources/channel.rs / impl Clone for SyncSender<T> / fn clone props=C04 ret=r
//@ spec
        ensures
            queue_of_stx(&r.queue()) == queue_of_stx(&self.queue()), r.wake_fd() == self.wake_fd(),
//@ enditem
//@ close
//@ open src/sources/channel.rs / impl Sender<T>
//@ item src/sources/channel.rs / impl Sender<T> / fn send props=C04 ret=r
//@ closure <<|()| self.ping.ping()>>
-> (u: ()) requires
            forall|f: int, c: u64| #[trigger] crate::sources::ping::eventfd::may_send(f, c) <==> (f == self.wake_fd() && c == 2),
            forall|f: int, b: Seq<u8>| #[trigger] crate::rustix::io::may_write(f, b) <==> (f == self.wake_fd() && b == crate::sources::ping::eventfd::ne_bytes(2)),
        ensures crate::rustix::io::w_write_called(self.wake_fd(), crate::sources::ping::eventfd::ne_bytes(2))
//@ spec
        requires
            forall|f: int, c: u64| #[trigger] crate::sources::ping::eventfd::may_send(f, c) <==> (f == self.wake_fd() && c == 2),
            forall|f: int, b: Seq<u8>| #[trigger] crate::rustix::io::may_write(f, b) <==> (f == self.wake_fd() && b == crate::sources::ping::eventfd::ne_bytes(2)),
        ensures
            // C04 (enqueue first, wake second): Ok means the message was accepted by the queue AND the loop has been woken
            r is Ok ==> w_sent(&self.queue()) && crate::rustix::io::w_write_called(self.wake_fd(), crate::sources::ping::eventfd::ne_bytes(2)),
//@ enditem
//@ close
//@ open src/sources/channel.rs / impl SyncSender<T>
//@ item src/sources/channel.rs / impl SyncSender<T> / fn send props=C04 ret=r
//@ closure? <<|()| self.ping.ping()>>
-> (u: ()) requires
            forall|f: int, c: u64| #[trigger] crate::sources::ping::eventfd::may_send(f, c) <==> (f == self.wake_fd() && c == 2),
            forall|f: int, b: Seq<u8>| #[trigger] crate::rustix::io::may_write(f, b) <==> (f == self.wake_fd() && b == crate::sources::ping::eventfd::ne_bytes(2)),
        ensures crate::rustix::io::w_write_called(self.wake_fd(), crate::sources::ping::eventfd::ne_bytes(2))
//@ spec
        requires
            forall|f: int, c: u64| #[trigger] crate::sources::ping::eventfd::may_send(f, c) <==> (f == self.wake_fd() && c == 2),
            forall|f: int, b: Seq<u8>| #[trigger] crate::rustix::io::may_write(f, b) <==> (f == self.wake_fd() && b == crate::sources::ping::eventfd::ne_bytes(2)),
            // C04 ("a blocking synchronous send completes as long as the loop keeps dispatching"): the sender may PARK in the
            // queue's blocking send only after it has woken the loop -- on a full (or rendezvous) queue nobody else would ever
            // make room
            may_block_send(&self.queue()) <==> w_full_ping(self.wake_fd()),
        ensures
            r is Ok ==> w_sync_sent(&self.queue()) && crate::rustix::io::w_write_called(self.wake_fd(), crate::sources::ping::eventfd::ne_bytes(2)),
//@ enditem
//@ item src/sources/channel.rs / impl SyncSender<T> / fn try_send props=C04 ret=r
//@ spec
        requires
            forall|f: int, c: u64| #[trigger] crate::sources::ping::eventfd::may_send(f, c) <==> (f == self.wake_fd() && c == 2),
            forall|f: int, b: Seq<u8>| #[trigger] crate::rustix::io::may_write(f, b) <==> (f == self.wake_fd() && b == crate::sources::ping::eventfd::ne_bytes(2)),
        ensures
            // C04: accepted, or rejected only because the queue is full => the loop has been woken (so a blocked or retrying
            // sender is not stranded)
            // (on Full only the opaque fact "woken because the queue was full" is handed out, not the plain write witness: a
            // caller that goes on to enqueue by other means -- SyncSender::send's blocking send -- then has to wake the loop
            // AGAIN, after its message is in the queue, to establish the witness its own postcondition asks for)
            r is Ok ==> crate::rustix::io::w_write_called(self.wake_fd(), crate::sources::ping::eventfd::ne_bytes(2)),
            (r matches Err(e) && e is Full) ==> w_full_ping(self.wake_fd()),
            r is Ok ==> w_sync_sent(&self.queue()),
//@ entry
        proof { reveal(w_full_ping); }
//@ enditem
//@ close
//@ item src/sources/channel.rs / struct Channel props=C04,C02
//@ pre
#[verifier::reject_recursive_types(T)]
//@ enditem
//@ item src/sources/channel.rs / struct ChannelError props=C04
//@ enditem

//@ open src/sources/channel.rs / impl Channel<T>
//@ item src/sources/channel.rs / impl Channel<T> / fn recv props=C04 ret=r
//@ enditem
//@ item src/sources/channel.rs / impl Channel<T> / fn try_recv props=C04 ret=r
//@ spec
        requires may_recv(self.rx()),
        ensures
            // the manual proxy hands on exactly what the channel's own queue end answered
            match r {
                Ok(v) => w_received(self.rx(), v),
                Err(mpsc::TryRecvError::Empty) => w_empty(self.rx()),
                Err(mpsc::TryRecvError::Disconnected) => w_disconnected(self.rx()),
            },
//@ enditem
//@ close
impl<T> Channel<T> {
//@ slice src/sources/channel.rs / impl EventSource for Channel<T> / fn process_events :: closure 1 props=C04,C02,C12 name=Channel::process_events::drain_closure
//@ sig
/// S1 slice: the body of the closure Channel::process_events passes to its PingSource (it mutates captured locals, so
/// Verus cannot take it as a closure). Captured `capacity`, `receiver`, `callback` become parameters; the captured
/// `mut` flags `clear_readiness` / `disconnected` become locals initialised as in the real code and are returned.
fn drain_closure<C: FnMut(Event<T>, &mut ())>(capacity: usize, receiver: &mpsc::Receiver<T>, mut callback: C) -> (r: (bool, bool))
//@ spec
    requires
        may_recv(receiver),
        // C04: the callback is callable ONLY with a message that try_recv has just handed out (nothing is made up,
        // nothing can be delivered twice: T is not Clone here), and with Closed ONLY once the queue reported that
        // every sender is gone
        forall|e: Event<T>, m: &mut ()| #[trigger] call_requires(callback, (e, m)) <==> match e {
            Event::Msg(v) => w_received(receiver, v),
            Event::Closed => w_disconnected(receiver),
        },
        // (must-call device) a call of the callback leaves the witness "delivered" (see the loop invariant)
        forall|e: Event<T>, m: &mut ()| #[trigger] call_ensures(callback, (e, m), ()) ==> w_event_delivered(e),
    ensures
        // r.0 = clear_readiness: the queue was seen empty; r.1 = disconnected: every sender is gone
        r.0 ==> w_empty(receiver),
        r.1 ==> w_disconnected(receiver) && w_event_delivered(Event::<T>::Closed),
        !(r.0 && r.1),
        // C02/C04: each wake-up makes at least one attempt -- also for a rendezvous channel (capacity 0); if neither flag
        // is set the batch limit was hit with messages still flowing (the caller must re-arm itself)
        r.0 || r.1 || exists|v: T| #[trigger] w_received(receiver, v),
//@ entry
    let mut clear_readiness = false;
    let mut disconnected = false;
    let ghost mut got: Seq<T> = Seq::empty();
//@ before <<callback(Event::Msg(val), &mut ())>>
                        proof { got = got.push(val); }
//@ loop 1
        invariant_except_break
            !clear_readiness, !disconnected,
            lit.index@ > 0 ==> exists|v: T| #[trigger] w_received(receiver, v),
            got.len() == lit.index@,
        invariant
            max >= 1, may_recv(receiver),
            // C12 (no spinning): the batch is larger than the queue's bound (up to the fairness cap), so a bounded queue that was full when the loop woke up is SEEN empty and the channel does not re-arm itself for nothing
            max > capacity || max >= MAX_EVENTS_CHECK, /*@props C12,C04,C02*/
            forall|e: Event<T>, m: &mut ()| #[trigger] call_ensures(callback, (e, m), ()) ==> w_event_delivered(e),
            // C04 (must-call side): every message taken out of the queue has been handed to the callback (a received message
            // is never dropped), and Closed has been delivered before `disconnected` is reported
            forall|i: int| 0 <= i < got.len() ==> w_event_delivered(Event::Msg(#[trigger] got[i])),
            disconnected ==> w_event_delivered(Event::<T>::Closed),
            forall|e: Event<T>, m: &mut ()| #[trigger] call_requires(callback, (e, m)) <==> match e {
                Event::Msg(v) => w_received(receiver, v),
                Event::Closed => w_disconnected(receiver),
            },
        ensures
            clear_readiness ==> w_empty(receiver),
            disconnected ==> w_disconnected(receiver) && w_event_delivered(Event::<T>::Closed),
            !(clear_readiness && disconnected),
            clear_readiness || disconnected || exists|v: T| #[trigger] w_received(receiver, v),
            // neither flag set ONLY if the whole batch was used up (else the channel would re-arm itself on an empty queue)
            (!clear_readiness && !disconnected) ==> got.len() == max,
//@ rw R14 1 <<for _ in 0..max>> => <<for _i in lit: 0..max>>
//@ tail
    (clear_readiness, disconnected)
//@ endslice

//@ slice src/sources/channel.rs / impl EventSource for Channel<T> / fn process_events :: after <<.map_err(ChannelError)?;>> props=C04,C02,C12 name=Channel::process_events::post_drain
//@ sig
/// S1 slice: everything after the statement that drains the queue (what happens after the drain). Free variables
/// `disconnected`, `clear_readiness`, `action` (the PingSource's own post-action) become parameters.
fn post_drain(&mut self, disconnected: bool, clear_readiness: bool, mut action: PostAction) -> (r: Result<PostAction, ChannelError>)
//@ spec
    requires
        forall|f: int, c: u64| #[trigger] crate::sources::ping::eventfd::may_send(f, c) <==> (f == old(self).ping.raw() && c == 2),
        forall|f: int, b: Seq<u8>| #[trigger] crate::rustix::io::may_write(f, b) <==> (f == old(self).ping.raw() && b == crate::sources::ping::eventfd::ne_bytes(2)),
    ensures
        // C04: every sender gone => the source removes itself (Closed was delivered by the drain)
        disconnected ==> r == Ok::<PostAction, ChannelError>(PostAction::Remove),
        // queue drained => whatever the ping source decided (Continue, or Remove when the ping handles are gone)
        (!disconnected && clear_readiness) ==> r == Ok::<PostAction, ChannelError>(action),
        // C02/C04: batch limit hit with work remaining => the channel has re-armed its own wake-up (must-call witness),
        // so no message is left queued without a pending wake-up
        (!disconnected && !clear_readiness) ==> r == Ok::<PostAction, ChannelError>(PostAction::Continue)
            && crate::rustix::io::w_write_called(old(self).ping.raw(), crate::sources::ping::eventfd::ne_bytes(2)),
//@ alt
//@ sig
/// (alternative overlay for a tail that also looks at the local `capacity` -- one more free variable; same contract, for
/// every value of it)
fn post_drain(&mut self, disconnected: bool, clear_readiness: bool, mut action: PostAction, capacity: usize) -> (r: Result<PostAction, ChannelError>)
//@ endslice
}

//@ region channel_ctor_specs props=C04
impl<T> Channel<T> {
    pub closed spec fn rx(&self) -> &mpsc::Receiver<T> { &self.receiver }
    pub closed spec fn cap(&self) -> usize { self.capacity }
    /// the eventfd the channel pings itself through when a batch is cut short
    pub closed spec fn own_fd(&self) -> int { self.ping.raw() }
}
/// Rule R23: `ping.clone()` of calloop's `#[derive(Clone)] struct Ping { event: Arc<FlagOnDrop> }` becomes a call of this
/// stand-in (Verus adds no specification to a derived Clone that is not a Copy, and rejects a second one). ASSUMED: a
/// derived Clone clones field by field and `Arc::clone` yields the same allocation.
#[verifier::external_body]
fn ping_clone(p: &Ping) -> (r: Ping)
    ensures r == *p,
{ p.clone() }
//@ endregion
//@ item src/sources/channel.rs / fn channel props=C04 ret=r
//@ rw R23 * <<ping.clone()>> => <<ping_clone(&ping)>>
//@ rw R24 1 <<make_ping().expect("Failed to create a Ping.")>> => <<crate::ext::expect_or_diverge(make_ping(), "Failed to create a Ping.")>>
//@ spec
    ensures
        // C04: the sender's queue end and the channel's are the two ends of one queue, and the eventfd the sender pings is
        // the one the channel's PingSource polls (and the one the channel re-arms itself through): a send wakes THIS source
        queue_of_tx(&r.0.queue()) == queue_of_rx(r.1.rx()),
        r.0.wake_fd() == r.1.src().raw(), r.1.own_fd() == r.1.src().raw(),
        // an unbounded channel never takes the rendezvous path
        r.1.cap() == usize::MAX,
//@ enditem
//@ item src/sources/channel.rs / fn sync_channel props=C04 ret=r
//@ rw R23 * <<ping.clone()>> => <<ping_clone(&ping)>>
//@ rw R24 1 <<make_ping().expect("Failed to create a Ping.")>> => <<crate::ext::expect_or_diverge(make_ping(), "Failed to create a Ping.")>>
//@ spec
    ensures
        queue_of_stx(&r.0.queue()) == queue_of_rx(r.1.rx()),
        r.0.wake_fd() == r.1.src().raw(), r.1.own_fd() == r.1.src().raw(),
        // the capacity the drain loop uses to size its batch is the queue's bound
        r.1.cap() == bound,
//@ enditem

//@ region channel_src_spec props=C16,C07,C15
impl<T> Channel<T> {
    /// the ping source the channel is registered through (ghost)
    pub closed spec fn src(&self) -> PingSource { self.source }
}
//@ endregion
// C16/C07/C15: a Channel is registered, re-registered and unregistered exactly as its PingSource is (the three functions are
// whole items; process_events is signature-only here: its parts are the two slices above)
//@ open src/sources/channel.rs / impl EventSource for Channel<T>
//@ item src/sources/channel.rs / impl EventSource for Channel<T> / type Event props=C16,C07,C15
//@ enditem
//@ item src/sources/channel.rs / impl EventSource for Channel<T> / type Metadata props=C16,C07,C15
//@ enditem
//@ item src/sources/channel.rs / impl EventSource for Channel<T> / type Ret props=C16,C07,C15
//@ enditem
//@ item src/sources/channel.rs / impl EventSource for Channel<T> / type Error props=C16,C07,C15
//@ enditem
//@ region channel_protocol props=C16,C07,C15
    // as far as registration goes the source IS its ping source (whose registration is that of its Generic<eventfd>)
    open spec fn wf(&self) -> bool { self.src().wf() }
    open spec fn registered(&self) -> bool { self.src().registered() }
    open spec fn register_req(&self) -> bool { self.src().register_req() }
    open spec fn register_ens(o: &Self, n: &Self, ok: bool) -> bool { PingSource::register_ens(&o.src(), &n.src(), ok) }
    open spec fn reregister_req(&self) -> bool { self.src().reregister_req() }
    open spec fn reregister_ens(o: &Self, n: &Self, ok: bool) -> bool { PingSource::reregister_ens(&o.src(), &n.src(), ok) }
    open spec fn unregister_req(&self) -> bool { self.src().unregister_req() }
    open spec fn unregister_ens(o: &Self, n: &Self, ok: bool) -> bool { PingSource::unregister_ens(&o.src(), &n.src(), ok) }
    open spec fn process_req(&self) -> bool { self.src().process_req() }
    open spec fn may_call(&self, readiness: Readiness, token: Token, e: Event<T>) -> bool { true }
    open spec fn cb_req<CbF: FnMut(Event<T>, &mut ())>(&self, readiness: Readiness, token: Token, callback: CbF) -> bool { true }
    open spec fn process_ens(o: &Self, n: &Self, readiness: Readiness, token: Token, r: Result<PostAction, ChannelError>) -> bool { true }
//@ endregion
//@ item src/sources/channel.rs / impl EventSource for Channel<T> / fn process_events props=C16,C07,C15 sigonly
//@ rw R8 1 <<process_events<C>>> => <<process_events<CbF>>>
//@ rw R8 1 <<mut callback: C,>> => <<mut callback: CbF,>>
//@ rw R8 1 <<C: FnMut(Self::Event>> => <<CbF: FnMut(Self::Event>>
//@ enditem
//@ item src/sources/channel.rs / impl EventSource for Channel<T> / fn register props=C16,C07,C15
//@ enditem
//@ item src/sources/channel.rs / impl EventSource for Channel<T> / fn reregister props=C16,C07,C15
//@ enditem
//@ item src/sources/channel.rs / impl EventSource for Channel<T> / fn unregister props=C16,C07,C15
//@ enditem
//@ close
