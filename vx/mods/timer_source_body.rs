//@ item src/sources/timer.rs / struct Registration props=C05
//@ enditem
//@ item src/sources/timer.rs / struct Timer props=C05
//@ enditem
//@ item src/sources/timer.rs / enum TimeoutAction props=C05
//@ enditem

//@ region timer_specs props=C05,C01,C07
impl Timer {
    /// token of the current arming, if the timer is armed
    pub closed spec fn reg_token(&self) -> Option<Token> { match self.registration { Some(r) => Some(r.token), None => None } }
    pub closed spec fn reg_counter(&self) -> Option<int> { match self.registration { Some(r) => Some(r.counter as int), None => None } }
    /// the current deadline (None: overflowed)
    pub closed spec fn dl(&self) -> Option<Instant> { self.deadline }
    /// the timer takes part in a loop: registered and not disabled since (an armed timer does; one whose deadline has
    /// overflowed takes part without an arming)
    pub closed spec fn takes_part(&self) -> bool { self.registered }
}
//@ endregion

//@ open src/sources/timer.rs / impl Timer
//@ item src/sources/timer.rs / impl Timer / fn immediate props=C05 ret=r
//@ spec
        ensures r.dl() is Some, r.reg_token() is None, !r.takes_part(),
//@ enditem
//@ item src/sources/timer.rs / impl Timer / fn from_duration props=C05 ret=r
//@ spec
        ensures r.reg_token() is None, !r.takes_part(),
//@ enditem
//@ item src/sources/timer.rs / impl Timer / fn from_deadline props=C05 ret=r
//@ spec
        ensures r.dl() == Some(deadline), r.reg_token() is None, !r.takes_part(),
//@ enditem
//@ item src/sources/timer.rs / impl Timer / fn from_deadline_inner props=C05 ret=r
//@ spec
        ensures r.dl() == deadline, r.reg_token() is None, !r.takes_part(),
//@ enditem
//@ item src/sources/timer.rs / impl Timer / fn set_deadline props=C05
//@ spec
        ensures final(self).dl() == Some(deadline), final(self).reg_token() == old(self).reg_token(), final(self).takes_part() == old(self).takes_part(),
//@ enditem
//@ item src/sources/timer.rs / impl Timer / fn set_duration props=C05
//@ spec
        ensures final(self).reg_token() == old(self).reg_token(), final(self).takes_part() == old(self).takes_part(),
//@ enditem
//@ item src/sources/timer.rs / impl Timer / fn current_deadline props=C05 ret=r
//@ spec
        ensures r == self.dl(),
//@ enditem
//@ close

//@ open src/sources/timer.rs / impl EventSource for Timer
//@ item src/sources/timer.rs / impl EventSource for Timer / type Event props=C05
//@ enditem
//@ item src/sources/timer.rs / impl EventSource for Timer / type Metadata props=C05
//@ enditem
//@ item src/sources/timer.rs / impl EventSource for Timer / type Ret props=C05
//@ enditem
//@ item src/sources/timer.rs / impl EventSource for Timer / type Error props=C05
//@ enditem
//@ region timer_protocol props=C05,C01,C07
    /// an armed timer takes part in its loop
    open spec fn wf(&self) -> bool { self.reg_token() is Some ==> self.takes_part() }
    open spec fn registered(&self) -> bool { self.reg_token() is Some }
    /// arming an armed timer would leave the old heap entry behind
    open spec fn register_req(&self) -> bool { self.reg_token() is None }
    open spec fn register_ens(o: &Self, n: &Self, ok: bool) -> bool {
        &&& ok && n.dl() == o.dl() && (n.reg_token() is Some <==> o.dl() is Some)
        &&& n.takes_part()
        // C05 (must-call): an armed timer HAS put (its deadline, its token) into the wheel, under the counter it remembers
        &&& n.reg_token() is Some ==> (n.reg_counter() matches Some(c) && w_wheel_inserted(c, o.dl()->Some_0, n.reg_token()->Some_0))
    }
    /// (taken from the property: `update()` may be called on a disabled source)
    open spec fn reregister_req(&self) -> bool { self.wf() }
    open spec fn reregister_ens(o: &Self, n: &Self, ok: bool) -> bool {
        &&& n.dl() == o.dl() && n.takes_part() == o.takes_part()
        // C07 (from the property: "not invoked again until enable() succeeds"): a timer that does not take part in the loop
        // -- it has been disabled -- is NOT armed by a re-registration (defect F17: update() armed it); what the call answers
        // then is not the property's business
        &&& !o.takes_part() ==> n.reg_token() is None
        &&& o.takes_part() ==> ok && (n.reg_token() is Some <==> o.dl() is Some)
        &&& o.reg_counter() matches Some(c) ==> w_wheel_cancelled(c)
        &&& n.reg_token() is Some ==> (n.reg_counter() matches Some(c) && w_wheel_inserted(c, o.dl()->Some_0, n.reg_token()->Some_0))
    }
    open spec fn unregister_req(&self) -> bool { true }
    open spec fn unregister_ens(o: &Self, n: &Self, ok: bool) -> bool {
        &&& ok && n.dl() == o.dl() && n.reg_token() is None && !n.takes_part()
        // C05/C07 (must-call): the arming it had HAS been cancelled in the wheel (a disabled / removed / re-armed timer
        // leaves no entry behind that could still fire)
        &&& o.reg_counter() matches Some(c) ==> w_wheel_cancelled(c)
    }
    open spec fn process_req(&self) -> bool { true }
    /// the callback may run only for the timer's own current arming and only with its current deadline
    open spec fn may_call(&self, readiness: Readiness, token: Token, e: Instant) -> bool {
        &&& self.reg_token() == Some(token) && self.dl() == Some(e)
        // C05 (never early, from the property): ... and only once a clock value that HAS been read is at or past that
        // deadline. An expiry collected into the batch before the timer was re-armed (set_deadline + update from another
        // callback of the same dispatch) still carries the timer's token: without this test it fires the callback with the
        // new, unreached deadline (defect F5)
        &&& exists|now: Instant| clock_read(now) && #[trigger] nanos(now) >= nanos(e)
    }
    open spec fn cb_req<CbF: FnMut(Instant, &mut ()) -> TimeoutAction>(&self, readiness: Readiness, token: Token, callback: CbF) -> bool {
        forall|e: Instant, m: &mut ()| self.may_call(readiness, token, e) ==> #[trigger] call_requires(callback, (e, m))
    }
    open spec fn process_ens(o: &Self, n: &Self, readiness: Readiness, token: Token, r: Result<PostAction, std::io::Error>) -> bool {
        &&& r is Ok
        &&& (r->Ok_0 is Continue || r->Ok_0 is Remove)
        &&& n.reg_token() == o.reg_token() && n.reg_counter() == o.reg_counter() && n.takes_part() == o.takes_part()
        // an event that is not for the current arming (stale token, disabled, overflowed) is ignored
        &&& (o.reg_token() != Some(token) || o.dl() is None) ==> (r->Ok_0 is Continue && n.dl() == o.dl())
        // rescheduled timers keep a deadline
        &&& (o.reg_token() == Some(token) && o.dl() is Some && r->Ok_0 is Continue) ==> n.dl() is Some
    }
//@ endregion
//@ item src/sources/timer.rs / impl EventSource for Timer / fn process_events props=C05,C01,C07,C12 ret=r
//@ rw R8 1 <<process_events<F>>> => <<process_events<CbF>>>
//@ rw R8 1 <<mut callback: F,>> => <<mut callback: CbF,>>
//@ rw R8 1 <<F: FnMut(Self::Event>> => <<CbF: FnMut(Self::Event>>
//@ rw R2 * <<_: Readiness>> => <<_readiness: Readiness>>
//@ spec
        ensures
            // an event for the current arming either comes too early -- a clock value read here is still before the deadline
            // (a stale expiry, collected before the timer was re-armed): nothing happens --, or the callback is called with the
            // deadline (must-call) and its answer is booked exactly once: Drop => Remove (deadline kept), ToInstant(i) =>
            // deadline i
            (old(self).reg_token() == Some(token) && old(self).dl() is Some) ==> (
                (exists|now: Instant| clock_read(now) && #[trigger] nanos(now) < nanos(old(self).dl()->Some_0)
                    && r == Ok::<PostAction, std::io::Error>(PostAction::Continue) && final(self).dl() == old(self).dl())
                || exists|m0: &mut (), a: TimeoutAction|
                #[trigger] call_ensures(callback, (old(self).dl()->Some_0, m0), a) && match a {
                    TimeoutAction::Drop => r == Ok::<PostAction, std::io::Error>(PostAction::Remove) && final(self).dl() == old(self).dl(),
                    // (must-call) ... and the rescheduled arming IS back in the wheel, under the timer's own counter and token
                    TimeoutAction::ToInstant(i) => r == Ok::<PostAction, std::io::Error>(PostAction::Continue) && final(self).dl() == Some(i)
                        && w_wheel_reinserted(old(self).reg_counter()->Some_0, i, token),
                    // a relative reschedule counts from a FRESH clock read (never from the old deadline: a late delivery must not
                    // make the next firing early)
                    TimeoutAction::ToDuration(d) => (r == Ok::<PostAction, std::io::Error>(PostAction::Remove) && final(self).dl() is None)
                        || (r == Ok::<PostAction, std::io::Error>(PostAction::Continue) && (final(self).dl() matches Some(x)
                                && w_wheel_reinserted(old(self).reg_counter()->Some_0, x, token)
                                && exists|now: Instant| #[trigger] clock_read(now) && nanos(x) == nanos(now) + dur_ns(d))),
                }),
//@ entry
        proof { broadcast use axiom_instant_cmp; }
//@ enditem
//@ item src/sources/timer.rs / impl EventSource for Timer / fn register props=C05,C01,C12
//@ spec
        ensures
            // the arming uses the first token of the factory
            final(self).reg_token() matches Some(t) ==> t.tok() == old(token_factory).next(),
//@ enditem
//@ item src/sources/timer.rs / impl EventSource for Timer / fn reregister props=C05,C01,C12,C07
//@ spec
        ensures
            final(self).reg_token() matches Some(t) ==> t.tok() == old(token_factory).next(),
//@ enditem
//@ item src/sources/timer.rs / impl EventSource for Timer / fn unregister props=C05,C07,C01,C12
//@ enditem
//@ close

//@ region timeout_future_prelude props=C05
#[verifier::external_type_specification] #[verifier::external_body]
pub struct ExWaker(std::task::Waker);
#[verifier::external_type_specification] #[verifier::external_body]
pub struct ExContext<'a>(std::task::Context<'a>);
#[verifier::external_type_specification] #[verifier::accept_recursive_types(T)]
pub struct ExTaskPoll<T>(std::task::Poll<T>);
pub uninterp spec fn cx_waker(cx: &std::task::Context<'_>) -> std::task::Waker;
pub assume_specification<'a, 'b> [std::task::Context::<'a>::waker] (cx: &'b std::task::Context<'a>) -> (r: &'a std::task::Waker)
    ensures *r == cx_waker(cx);
pub assume_specification [<std::task::Waker as Clone>::clone] (w: &std::task::Waker) -> (r: std::task::Waker)
    ensures r == *w;
//@ endregion
//@ item src/sources/timer.rs / struct TimeoutFuture props=C05
//@ enditem
//@ region timeout_future_wake props=C05
pub uninterp spec fn w_waker_woken(w: std::task::Waker) -> bool;
pub assume_specification [std::task::Waker::wake] (w: std::task::Waker)
    ensures w_waker_woken(w);
//@ endregion
impl TimeoutFuture {
//@ slice src/sources/timer.rs / impl TimeoutFuture / fn from_deadline_inner :: closure 1 props=C05 name=TimeoutFuture::from_deadline_inner::timer_callback
//@ rw R10 * <<waker.borrow_mut()>> => <<waker_cell>>
//@ sig
    /// S1 slice: the body of the callback TimeoutFuture installs on its Timer (a `move` closure with pattern parameters).
    /// R10: the borrow of the waker cell it shares with the future becomes `waker_cell`.
    fn timeout_future_timer_callback(waker_cell: &mut Option<std::task::Waker>) -> (r: TimeoutAction)
//@ spec
        ensures
            // C05 (exactly once per arming): when the timer fires, the task that last polled the future is woken (the waker
            // it left in the shared cell) and the timer is not re-armed
            *old(waker_cell) matches Some(w) ==> w_waker_woken(w),
            r is Drop,
//@ endslice

//@ slice src/sources/timer.rs / impl std::future::Future for TimeoutFuture / fn poll :: body props=C05 name=TimeoutFuture::poll
//@ rw R21 * <<match self.deadline>> => <<match slf.deadline>>
//@ rw R10 * <<self.waker.borrow_mut()>> => <<waker_cell>>
//@ sig
    /// S1 slice: whole body of `<TimeoutFuture as Future>::poll`. R21: the receiver `self: Pin<&mut Self>` (TimeoutFuture is
    /// Unpin) becomes `slf: &mut TimeoutFuture`; R10: the borrow of the shared waker cell becomes `waker_cell`.
    fn timeout_future_poll_body(slf: &mut TimeoutFuture, waker_cell: &mut Option<std::task::Waker>, cx: &mut std::task::Context<'_>) -> (r: std::task::Poll<()>)
//@ spec
        ensures
            // C05 (never early): the future resolves only when a clock value read AT THIS POLL is at or past its deadline;
            // an overflowed deadline (None) never resolves
            r is Ready ==> (old(slf).deadline matches Some(d) && exists|now: Instant| clock_read(now) && #[trigger] nanos(now) >= nanos(d)),
            // otherwise -- unless it can never fire -- the task's own waker is left in the cell the timer's callback wakes
            (r is Pending && old(slf).deadline is Some) ==> *final(waker_cell) == Some(cx_waker(&*old(cx))),
            // (never late either: Pending with a deadline means the clock value read at this poll was still before it)
            (r is Pending && old(slf).deadline is Some) ==> exists|now: Instant| clock_read(now) && #[trigger] nanos(now) < nanos(old(slf).deadline->Some_0),
            final(slf).deadline == old(slf).deadline,
//@ entry
        proof { broadcast use axiom_instant_cmp; }
//@ endslice
}
