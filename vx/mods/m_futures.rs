pub mod futures {
use vstd::prelude::*;
use crate::async_task::Runnable;
use crate::slab::Slab;
use std::{cell::RefCell, rc::Rc, sync::{atomic::{AtomicBool, Ordering}, mpsc, Arc, Mutex}, task::Waker};
use crate::ext_mpsc::*;
use crate::ext_atomic::*;
use crate::{sources::{channel::ChannelError, ping::{make_ping, Ping, PingError, PingSource}, EventSource}, Poll, PostAction, Readiness, Token, TokenFactory};
//@ include futures_body
} // mod futures
