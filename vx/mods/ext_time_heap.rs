//@ region prelude_time_heap
/// ASSUMED contracts for std::time::Instant (view: integer nanoseconds on the monotonic clock) and
/// std::collections::BinaryHeap (view: multiset; peek/pop return a cmp-maximal element). DESIGN 2.3.
pub mod ext_time {
    use vstd::prelude::*;
    use vstd::multiset::Multiset;
    use vstd::std_specs::cmp::{PartialEqSpec, PartialOrdSpec, OrdSpec};
    use std::time::{Instant, Duration};
    use std::cmp::Ordering;
    use std::collections::BinaryHeap;

    pub uninterp spec fn nanos(i: Instant) -> int;

    pub open spec fn int_cmp(a: int, b: int) -> Ordering {
        if a < b { Ordering::Less } else if a == b { Ordering::Equal } else { Ordering::Greater }
    }
    pub open spec fn rev(o: Ordering) -> Ordering {
        match o { Ordering::Less => Ordering::Greater, Ordering::Equal => Ordering::Equal, Ordering::Greater => Ordering::Less }
    }

    /// ASSUMED: Instant's comparison operators agree with the integer order of its nanosecond view, and two
    /// Instants with the same view are equal.
    #[verifier::external_body]
    pub broadcast proof fn axiom_instant_eq(a: Instant, b: Instant)
        ensures <Instant as PartialEqSpec>::obeys_eq_spec(), #[trigger] a.eq_spec(&b) == (nanos(a) == nanos(b)), (nanos(a) == nanos(b)) ==> a == b,
    {}
    #[verifier::external_body]
    pub broadcast proof fn axiom_instant_partial_cmp(a: Instant, b: Instant)
        ensures <Instant as PartialOrdSpec>::obeys_partial_cmp_spec(), #[trigger] a.partial_cmp_spec(&b) == Some(int_cmp(nanos(a), nanos(b))),
    {}
    #[verifier::external_body]
    pub broadcast proof fn axiom_instant_ord(a: Instant, b: Instant)
        ensures <Instant as OrdSpec>::obeys_cmp_spec(), #[trigger] a.cmp_spec(&b) == int_cmp(nanos(a), nanos(b)),
    {}
    #[verifier::external_body]
    pub broadcast proof fn axiom_instant_obeys_eq()
        ensures #[trigger] <Instant as PartialEqSpec>::obeys_eq_spec(),
    {}
    #[verifier::external_body]
    pub broadcast proof fn axiom_instant_obeys_partial_cmp()
        ensures #[trigger] <Instant as PartialOrdSpec>::obeys_partial_cmp_spec(),
    {}
    #[verifier::external_body]
    pub broadcast proof fn axiom_instant_obeys_cmp()
        ensures #[trigger] <Instant as OrdSpec>::obeys_cmp_spec(),
    {}
    pub broadcast group axiom_instant_cmp { axiom_instant_eq, axiom_instant_partial_cmp, axiom_instant_ord,
        axiom_instant_obeys_eq, axiom_instant_obeys_partial_cmp, axiom_instant_obeys_cmp }

    pub assume_specification [Ordering::reverse] (o: Ordering) -> (r: Ordering)
        ensures r == rev(o);

    /// ASSUMED: checked_add returns None exactly when the sum is not representable; otherwise the view adds.
    pub uninterp spec fn instant_max() -> int;
    pub uninterp spec fn dur_ns(d: Duration) -> int;
    pub assume_specification [Instant::checked_add] (i: &Instant, d: Duration) -> (r: Option<Instant>)
        ensures match r {
            Some(x) => nanos(x) == nanos(*i) + dur_ns(d) && nanos(x) <= instant_max(),
            None => nanos(*i) + dur_ns(d) > instant_max(),
        };
    /// the value has been returned by a clock read (monotone witness, DESIGN 2.12)
    pub uninterp spec fn clock_read(i: Instant) -> bool;
    pub assume_specification [Instant::now] () -> (r: Instant)
        ensures clock_read(r);
    pub assume_specification [Instant::elapsed] (i: &Instant) -> (r: Duration);
    /// ASSUMED (std): the time from `earlier` to `i`, zero if `earlier` is later
    pub open spec fn sat_since(later: Instant, earlier: Instant) -> int {
        if nanos(later) >= nanos(earlier) { nanos(later) - nanos(earlier) } else { 0 }
    }
    pub assume_specification [Instant::saturating_duration_since] (i: &Instant, earlier: Instant) -> (r: Duration)
        ensures dur_ns(r) == sat_since(*i, earlier);

    // ---- parts of the std time API that the unchanged tree does not use but an edit may plausibly start to use (ASSUMED,
    // standard meaning over the nanosecond views): an edit that introduces one of them is then decided, not undecided
    pub assume_specification [Instant::duration_since] (i: &Instant, earlier: Instant) -> (r: Duration)
        ensures dur_ns(r) == sat_since(*i, earlier);
    pub assume_specification [Instant::checked_duration_since] (i: &Instant, earlier: Instant) -> (r: Option<Duration>)
        ensures match r {
            Some(d) => nanos(*i) >= nanos(earlier) && dur_ns(d) == nanos(*i) - nanos(earlier),
            None => nanos(*i) < nanos(earlier),
        };
    pub assume_specification [Duration::from_secs] (x: u64) -> (r: Duration) ensures dur_ns(r) == x as int * 1_000_000_000;
    pub assume_specification [Duration::from_millis] (x: u64) -> (r: Duration) ensures dur_ns(r) == x as int * 1_000_000;
    pub assume_specification [Duration::from_micros] (x: u64) -> (r: Duration) ensures dur_ns(r) == x as int * 1_000;
    pub assume_specification [Duration::from_nanos] (x: u64) -> (r: Duration) ensures dur_ns(r) == x as int;
    pub assume_specification [Duration::as_secs] (d: &Duration) -> (r: u64) ensures r as int == dur_ns(*d) / 1_000_000_000;
    pub assume_specification [Duration::as_millis] (d: &Duration) -> (r: u128) ensures r as int == dur_ns(*d) / 1_000_000;
    pub assume_specification [Duration::as_micros] (d: &Duration) -> (r: u128) ensures r as int == dur_ns(*d) / 1_000;
    pub assume_specification [Duration::as_nanos] (d: &Duration) -> (r: u128) ensures r as int == dur_ns(*d);
    pub assume_specification [Duration::is_zero] (d: &Duration) -> (r: bool) ensures r == (dur_ns(*d) == 0);
    /// ASSUMED: a duration is never negative
    #[verifier::external_body]
    pub broadcast proof fn axiom_duration_nonneg(d: Duration)
        ensures #[trigger] dur_ns(d) >= 0,
    {}

    // ---- BinaryHeap
    pub assume_specification<T, A: std::alloc::Allocator> [BinaryHeap::<T, A>::is_empty] (h: &BinaryHeap<T, A>) -> (r: bool)
        ensures r == (heap_view(h).len() == 0);
    pub assume_specification<T, A: std::alloc::Allocator> [BinaryHeap::<T, A>::len] (h: &BinaryHeap<T, A>) -> (r: usize)
        ensures r == heap_view(h).len();
    pub assume_specification<T, A: std::alloc::Allocator> [BinaryHeap::<T, A>::clear] (h: &mut BinaryHeap<T, A>)
        ensures heap_view(final(h)) == Multiset::<T>::empty();
    pub uninterp spec fn heap_view<T, A: std::alloc::Allocator>(h: &BinaryHeap<T, A>) -> Multiset<T>;

    pub assume_specification<T> [BinaryHeap::<T>::new] () -> (r: BinaryHeap<T>)
        ensures heap_view(&r) == Multiset::<T>::empty();
    pub assume_specification<T: Ord, A: std::alloc::Allocator> [BinaryHeap::<T, A>::push] (h: &mut BinaryHeap<T, A>, x: T)
        ensures heap_view(final(h)) == heap_view(old(h)).insert(x);
    /// the element at the root of a non-empty heap (peek and pop agree on it)
    pub uninterp spec fn heap_top<T, A: std::alloc::Allocator>(h: &BinaryHeap<T, A>) -> T;
    /// the only place where heap order is trusted: the root is an element of the heap, maximal w.r.t. T's cmp
    pub assume_specification<T, A: std::alloc::Allocator> [BinaryHeap::<T, A>::peek] (h: &BinaryHeap<T, A>) -> (r: Option<&T>)
        ensures match r {
            Some(x) => *x == heap_top(h) && heap_view(h).count(*x) > 0 && is_max::<T>(heap_view(h), *x),
            None => heap_view(h) == Multiset::<T>::empty(),
        };
    pub assume_specification<T: Ord, A: std::alloc::Allocator> [BinaryHeap::<T, A>::pop] (h: &mut BinaryHeap<T, A>) -> (r: Option<T>)
        ensures match r {
            Some(x) => x == heap_top(old(h)) && heap_view(old(h)).count(x) > 0 && is_max::<T>(heap_view(old(h)), x)
                && heap_view(final(h)) == heap_view(old(h)).remove(x),
            None => heap_view(old(h)) == Multiset::<T>::empty() && heap_view(final(h)) == heap_view(old(h)),
        };
    pub assume_specification<T: Ord, A: std::alloc::Allocator, F: FnMut(&T) -> bool> [BinaryHeap::<T, A>::retain] (h: &mut BinaryHeap<T, A>, f: F)
        ensures forall|p: spec_fn(T) -> bool| (forall|x: T| (call_ensures(f, (&x,), true) ==> #[trigger] p(x)) && (call_ensures(f, (&x,), false) ==> !p(x)))
                    ==> heap_view(final(h)) == #[trigger] heap_view(old(h)).filter(p);

    /// `a <= b` in the order the heap uses. peek() has no `T: Ord` bound in std, so the link to T's cmp is a
    /// separate ASSUMED axiom.
    pub uninterp spec fn heap_le<T>(a: T, b: T) -> bool;
    #[verifier::external_body]
    pub broadcast proof fn axiom_heap_le<T: Ord>(a: T, b: T)
        ensures <T as OrdSpec>::obeys_cmp_spec() ==> (#[trigger] heap_le(a, b) <==> !(a.cmp_spec(&b) is Greater)),
    {}
    pub open spec fn is_max<T>(m: Multiset<T>, x: T) -> bool {
        forall|y: T| m.count(y) > 0 ==> #[trigger] heap_le(y, x)
    }

}
//@ region prelude_duration
pub mod ext_dur {
    use vstd::prelude::*;
    use vstd::std_specs::cmp::{PartialEqSpec, PartialOrdSpec, OrdSpec};
    use std::time::Duration;
    use crate::ext_time::{dur_ns, int_cmp};
    /// ASSUMED: Duration's order is the integer order of its nanosecond view
    #[verifier::external_body]
    pub broadcast proof fn axiom_duration_ord(a: Duration, b: Duration)
        ensures #[trigger] a.cmp_spec(&b) == int_cmp(dur_ns(a), dur_ns(b)),
    {}
    #[verifier::external_body]
    pub broadcast proof fn axiom_duration_obeys()
        ensures #[trigger] <Duration as OrdSpec>::obeys_cmp_spec(),
    {}
    /// ASSUMED: `a - b` on Durations is defined (does not panic) whenever a >= b
    #[verifier::external_body]
    pub broadcast proof fn axiom_duration_sub(a: Duration, b: Duration)
        ensures dur_ns(a) >= dur_ns(b) ==> #[trigger] vstd::std_specs::ops::SubSpec::sub_req(a, b),
    {}
    #[verifier::external_body]
    pub broadcast proof fn axiom_duration_partial_ord(a: Duration, b: Duration)
        ensures <Duration as PartialOrdSpec>::obeys_partial_cmp_spec(), #[trigger] a.partial_cmp_spec(&b) == Some(int_cmp(dur_ns(a), dur_ns(b))),
    {}
    pub broadcast group axiom_duration_cmp { axiom_duration_ord, axiom_duration_obeys, axiom_duration_sub, axiom_duration_partial_ord }
    /// stand-in for the associated const `Duration::ZERO` (rule R12: Verus has no way to give an external
    /// associated const a specification). ASSUMED: it is the zero duration.
    #[verifier::external_body]
    pub fn duration_zero() -> (r: Duration)
        ensures dur_ns(r) == 0,
    { Duration::ZERO }
    /// ASSUMED: a Duration is determined by its nanosecond view
    #[verifier::external_body]
    pub broadcast proof fn axiom_duration_ext(a: Duration, b: Duration)
        ensures #[trigger] dur_ns(a) == #[trigger] dur_ns(b) ==> a == b,
    {}
}
