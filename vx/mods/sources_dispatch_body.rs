//@ item src/sources/mod.rs / struct DispatcherInner props=C14
//@ pre
#[verifier::reject_recursive_types(S)]
#[verifier::reject_recursive_types(F)]
//@ enditem

//@ item src/sources/mod.rs / struct AdditionalLifecycleEventsSet props=C14
//@ enditem

//@ region lifecycle_specs props=C14,C15,C06
impl AdditionalLifecycleEventsSet {
    /// abstract view: the sequence of registration tokens that drives before_sleep / before_handle_events
    pub(crate) open spec fn view(&self) -> Seq<RegistrationToken> { self.values@ }
}
//@ endregion

//@ open src/sources/mod.rs / impl AdditionalLifecycleEventsSet
//@ item src/sources/mod.rs / impl AdditionalLifecycleEventsSet / fn register props=C14
//@ spec
        ensures old(self)@.no_duplicates() ==> final(self)@.no_duplicates(),
                old(self)@.contains(token) ==> final(self)@ == old(self)@,
                !old(self)@.contains(token) ==> final(self)@ == old(self)@.push(token),
                forall|x: RegistrationToken| final(self)@.contains(x) <==> (old(self)@.contains(x) || x == token),
//@ entry
        proof { broadcast use crate::ext_vec::lemma_push_no_dup, crate::ext_vec::lemma_push_contains; }
//@ enditem
//@ item src/sources/mod.rs / impl AdditionalLifecycleEventsSet / fn unregister props=C14,C06
//@ spec
        ensures final(self)@ == old(self)@.filter(|x: RegistrationToken| x != token),
                !final(self)@.contains(token),
                old(self)@.no_duplicates() ==> final(self)@.no_duplicates(),
                forall|x: RegistrationToken| x != token ==> (final(self)@.contains(x) <==> old(self)@.contains(x)),
//@ entry
        proof { broadcast use crate::ext_vec::lemma_filter_props; }
//@ enditem
//@ close

//@ open src/sources/mod.rs / trait EventDispatcher
//@ region eventdispatcher_ghost props=C14,C15
    /// ASSUMPTION carrier (DESIGN 1.3): the state of the wrapped source lives behind the RefCell and is
    /// opaque at this layer, so the call-order preconditions of the wrapped source are assumed here.
    spec fn accepts_calls(&self) -> bool;
    // ---- monotone history witnesses (ghost, DESIGN 2.12). Each is a fact of the form "this call has been made on
    // this dispatcher with this outcome". They are produced ONLY by the postconditions of the three methods below and
    // are never negated, so any interpretation consistent with the call history is a model; a caller (which sees the
    // dispatcher as `dyn EventDispatcher`) can establish one only by really making the call.
    /// register(.., tf) returned Ok for a factory with tf.reg() == t
    spec fn w_registered(&self, t: RegistrationToken) -> bool;
    /// reregister(.., tf) returned Ok(true) for a factory with tf.reg() == t
    spec fn w_reregistered(&self, t: RegistrationToken) -> bool;
    /// unregister(.., t) was called
    spec fn w_unregister_called(&self, t: RegistrationToken) -> bool;
    /// unregister(.., t) returned Ok(true)
    spec fn w_unregistered(&self, t: RegistrationToken) -> bool;
    /// reregister / unregister returned Ok(false): the source is being dispatched, the request has to be deferred
    spec fn w_deferred(&self) -> bool;
    /// process_events(readiness, token, ..) was called
    spec fn w_processed(&self, readiness: Readiness, token: Token) -> bool;
    /// before_sleep() was called (and returned without error)
    spec fn w_before_sleep(&self) -> bool;
    /// before_sleep() returned the synthetic event (readiness, token)
    spec fn w_synthetic(&self, readiness: Readiness, token: Token) -> bool;
    /// before_handle_events(it) was called with an iterator filtered for registration token t over the events ev
    spec fn w_before_handle_events(&self, t: RegistrationToken, ev: Seq<crate::sys::PollEvent>) -> bool;
//@ endregion
//@ item src/sources/mod.rs / trait EventDispatcher / fn process_events props=C14,C02 ret=r
//@ spec
        ensures self.w_processed(readiness, token),
//@ enditem
//@ item src/sources/mod.rs / trait EventDispatcher / fn register props=C14,C15 ret=r
//@ spec
        requires
            self.accepts_calls(),
        ensures
            // the set that drives before_sleep/before_handle_events stays duplicate free ...
            old(additional_lifecycle_register)@.no_duplicates() ==> final(additional_lifecycle_register)@.no_duplicates(),
            // ... a failed registration leaves it as it was (C15) ...
            r is Err ==> final(additional_lifecycle_register)@ == old(additional_lifecycle_register)@,
            // ... and the only entry that can appear is this source's own registration token
            forall|x: RegistrationToken| final(additional_lifecycle_register)@.contains(x) ==>
                old(additional_lifecycle_register)@.contains(x) || x == old(token_factory).reg(),
            forall|x: RegistrationToken| old(additional_lifecycle_register)@.contains(x) ==> final(additional_lifecycle_register)@.contains(x),
            final(token_factory).reg() == old(token_factory).reg(),
            r is Ok ==> self.w_registered(old(token_factory).reg()),
//@ enditem
//@ item src/sources/mod.rs / trait EventDispatcher / fn reregister props=C14,C15 ret=r
//@ spec
        requires
            self.accepts_calls(),
        ensures
            old(additional_lifecycle_register)@.no_duplicates() ==> final(additional_lifecycle_register)@.no_duplicates(),
            forall|x: RegistrationToken| final(additional_lifecycle_register)@.contains(x) ==>
                old(additional_lifecycle_register)@.contains(x) || x == old(token_factory).reg(),
            forall|x: RegistrationToken| old(additional_lifecycle_register)@.contains(x) ==> final(additional_lifecycle_register)@.contains(x),
            // deferred (source is being dispatched) or failed: nothing changed
            (r is Err || r matches Ok(false)) ==> final(additional_lifecycle_register)@ == old(additional_lifecycle_register)@,
            final(token_factory).reg() == old(token_factory).reg(),
            r matches Ok(true) ==> self.w_reregistered(old(token_factory).reg()),
            r matches Ok(false) ==> self.w_deferred(),
//@ enditem
//@ item src/sources/mod.rs / trait EventDispatcher / fn unregister props=C14,C15,C06,C07 ret=r
//@ spec
        requires
            self.accepts_calls(),
            // registration tokens (the entries of the lifecycle set) always carry sub-id 0
            registration_token.tok().ssub() == 0, /*@props C14,C06*/
        ensures
            old(additional_lifecycle_register)@.no_duplicates() ==> final(additional_lifecycle_register)@.no_duplicates(),
            // entries of other sources are never touched
            forall|x: RegistrationToken| x != registration_token ==>
                (final(additional_lifecycle_register)@.contains(x) <==> old(additional_lifecycle_register)@.contains(x)),
            final(additional_lifecycle_register)@.contains(registration_token) ==> old(additional_lifecycle_register)@.contains(registration_token),
            // deferred (source is being dispatched) or failed: nothing changed
            (r is Err || r matches Ok(false)) ==> final(additional_lifecycle_register)@ == old(additional_lifecycle_register)@,
            self.w_unregister_called(registration_token),
            r matches Ok(true) ==> self.w_unregistered(registration_token),
            r matches Ok(false) ==> self.w_deferred(),
//@ enditem
//@ item src/sources/mod.rs / trait EventDispatcher / fn before_sleep props=C14,C12 ret=r
//@ spec
        ensures
            r is Ok ==> self.w_before_sleep(),
            r matches Ok(Some(ev)) ==> self.w_synthetic(ev.0, ev.1),
//@ enditem
//@ item src/sources/mod.rs / trait EventDispatcher / fn before_handle_events props=C14
//@ spec
        ensures self.w_before_handle_events(events.reg(), events.rest()),
//@ enditem
//@ close

//@ open src/sources/mod.rs / impl EventDispatcher<Data> for RefCell<DispatcherInner<S, F>>
//@ region eventdispatcher_impl_ghost props=C14,C15
    open spec fn accepts_calls(&self) -> bool {
        &&& forall|s: S| #[trigger] s.register_req()
        &&& forall|s: S| #[trigger] s.reregister_req()
        &&& forall|s: S| #[trigger] s.unregister_req()
    }
    // For this implementor the outcome witnesses mean: the wrapped source's own register / reregister / unregister HAS
    // returned Ok (for an arbitrary `S` its `*_ens` predicates are uninterpreted, so such a fact can only come from the
    // postcondition of a real call), resp. the dispatcher's RefCell WAS found borrowed. So `Ok(true)` cannot be returned
    // without the call having succeeded, nor `Ok(false)` without the borrow having failed.
    open spec fn w_registered(&self, t: RegistrationToken) -> bool { exists|o: S, n: S| #[trigger] S::register_ens(&o, &n, true) }
    open spec fn w_reregistered(&self, t: RegistrationToken) -> bool { exists|o: S, n: S| #[trigger] S::reregister_ens(&o, &n, true) }
    open spec fn w_unregister_called(&self, t: RegistrationToken) -> bool { true }
    open spec fn w_unregistered(&self, t: RegistrationToken) -> bool { exists|o: S, n: S| #[trigger] S::unregister_ens(&o, &n, true) }
    open spec fn w_deferred(&self) -> bool { crate::ext::w_borrow_failed(self) }
    open spec fn w_processed(&self, readiness: Readiness, token: Token) -> bool { true }
    open spec fn w_before_sleep(&self) -> bool { true }
    open spec fn w_synthetic(&self, readiness: Readiness, token: Token) -> bool { true }
    open spec fn w_before_handle_events(&self, t: RegistrationToken, ev: Seq<crate::sys::PollEvent>) -> bool { true }
//@ endregion
//@ item src/sources/mod.rs / impl EventDispatcher<Data> for RefCell<DispatcherInner<S, F>> / fn process_events props=C14 sigonly
//@ enditem
//@ item src/sources/mod.rs / impl EventDispatcher<Data> for RefCell<DispatcherInner<S, F>> / fn register props=C14,C15
//@ enditem
//@ item src/sources/mod.rs / impl EventDispatcher<Data> for RefCell<DispatcherInner<S, F>> / fn reregister props=C14,C15
//@ enditem
//@ item src/sources/mod.rs / impl EventDispatcher<Data> for RefCell<DispatcherInner<S, F>> / fn unregister props=C14,C15,C06,C07
//@ enditem
//@ item src/sources/mod.rs / impl EventDispatcher<Data> for RefCell<DispatcherInner<S, F>> / fn before_sleep props=C14 sigonly
//@ enditem
//@ item src/sources/mod.rs / impl EventDispatcher<Data> for RefCell<DispatcherInner<S, F>> / fn before_handle_events props=C14 sigonly
//@ enditem
//@ close

// The three registration methods once more, as S1 slices with the RefCell borrow as a parameter (rule R10): what the whole
// items above cannot say -- the dispatcher's state is behind its own RefCell there -- is how the lifecycle set changes
// DEPENDING ON the source's opt-in flag.
impl<S: EventSource, F> DispatcherInner<S, F> {
    pub closed spec fn opted_in(&self) -> bool { self.needs_additional_lifecycle_events }
    pub closed spec fn src(&self) -> S { self.source }
//@ slice src/sources/mod.rs / impl EventDispatcher<Data> for RefCell<DispatcherInner<S, F>> / fn register :: body props=C14,C15 name=DispatcherInner::register
//@ rw R10 * <<self.borrow_mut()>> => <<this_cell>>
//@ sig
    /// S1 slice: whole body of the dispatcher's `register`; R10: `self.borrow_mut()` becomes `this_cell`.
    fn dispatcher_register_body(this_cell: &mut DispatcherInner<S, F>, poll: &mut Poll, additional_lifecycle_register: &mut AdditionalLifecycleEventsSet, token_factory: &mut TokenFactory) -> (r: crate::Result<()>)
//@ spec
        requires old(this_cell).src().register_req(),
        ensures
            // C14: a source that opted in (NEEDS_EXTRA_LIFECYCLE_EVENTS) IS in the lifecycle set after a successful
            // registration, under its own registration token; one that did not leaves the set alone
            (r is Ok && old(this_cell).opted_in()) ==> final(additional_lifecycle_register)@.contains(old(token_factory).reg()),
            !old(this_cell).opted_in() ==> final(additional_lifecycle_register)@ == old(additional_lifecycle_register)@,
            r is Err ==> final(additional_lifecycle_register)@ == old(additional_lifecycle_register)@,
            final(this_cell).opted_in() == old(this_cell).opted_in(),
//@ endslice
//@ slice src/sources/mod.rs / impl EventDispatcher<Data> for RefCell<DispatcherInner<S, F>> / fn reregister :: body props=C14,C15 name=DispatcherInner::reregister
//@ rw R10 * <<self.try_borrow_mut()>> => <<Ok::<&mut DispatcherInner<S, F>, ()>(this_cell)>>
//@ sig
    /// S1 slice: whole body of the dispatcher's `reregister`; R10: `self.try_borrow_mut()` is taken to succeed with `this_cell`
    /// (the failing case is the `Ok(false)` branch, proved on the whole item).
    fn dispatcher_reregister_body(this_cell: &mut DispatcherInner<S, F>, poll: &mut Poll, additional_lifecycle_register: &mut AdditionalLifecycleEventsSet, token_factory: &mut TokenFactory) -> (r: crate::Result<bool>)
//@ spec
        requires old(this_cell).src().reregister_req(),
        ensures
            (r matches Ok(true) && old(this_cell).opted_in()) ==> final(additional_lifecycle_register)@.contains(old(token_factory).reg()),
            !old(this_cell).opted_in() ==> final(additional_lifecycle_register)@ == old(additional_lifecycle_register)@,
            r is Err ==> final(additional_lifecycle_register)@ == old(additional_lifecycle_register)@,
            r is Ok ==> r matches Ok(true),
//@ endslice
//@ slice src/sources/mod.rs / impl EventDispatcher<Data> for RefCell<DispatcherInner<S, F>> / fn unregister :: body props=C14,C15,C06,C07 name=DispatcherInner::unregister
//@ rw R10 * <<self.try_borrow_mut()>> => <<Ok::<&mut DispatcherInner<S, F>, ()>(this_cell)>>
//@ sig
    /// S1 slice: whole body of the dispatcher's `unregister`; R10 as above.
    fn dispatcher_unregister_body(this_cell: &mut DispatcherInner<S, F>, poll: &mut Poll, additional_lifecycle_register: &mut AdditionalLifecycleEventsSet, registration_token: RegistrationToken) -> (r: crate::Result<bool>)
//@ spec
        requires old(this_cell).src().unregister_req(),
        ensures
            // C14/C06/C07: a successfully unregistered (removed, disabled) source that had opted in is OUT of the lifecycle set:
            // it gets no further before_sleep / before_handle_events calls
            (r matches Ok(true) && old(this_cell).opted_in()) ==> !final(additional_lifecycle_register)@.contains(registration_token),
            !old(this_cell).opted_in() ==> final(additional_lifecycle_register)@ == old(additional_lifecycle_register)@,
            r is Err ==> final(additional_lifecycle_register)@ == old(additional_lifecycle_register)@,
            r is Ok ==> r matches Ok(true),
//@ endslice
}
