//@ region prelude_polling
/// Stand-in for the `polling` crate (rule D5): same names and field layout as polling 3.x for the parts
/// calloop touches; every contract here is ASSUMED.
pub mod polling {
    use vstd::prelude::*;
    #[derive(Clone, Copy)]
    pub struct Event { pub key: usize, pub readable: bool, pub writable: bool }
    impl Event {
        #[verifier::external_body]
        pub fn none(key: usize) -> (r: Event)
            ensures r.key == key, !r.readable, !r.writable,
        { unimplemented!() }
    }
    /// opaque: the kernel's interest table lives behind &self (DESIGN 1.4)
    #[verifier::external_body] #[derive(Debug)] pub struct Poller { _p: () }
    #[verifier::external_body] #[derive(Debug)] pub struct Events { _p: () }
    pub use crate::ext::fd_raw;
    /// ASSUMED: a BorrowedFd obtained from x.as_fd() designates x's descriptor, and as_raw_fd() returns it
    pub assume_specification<'a> [<std::os::fd::BorrowedFd<'a> as std::os::fd::AsRawFd>::as_raw_fd] (b: &std::os::fd::BorrowedFd<'a>) -> (r: i32)
        ensures r as int == fd_raw(b);
    /// ASSUMED (opaque): HashMap::retain -- only used by the level-trigger emulation for pollers without level support
    pub assume_specification<K, V, S, A, F> [std::collections::HashMap::<K, V, S, A>::retain] (m: &mut std::collections::HashMap<K, V, S, A>, f: F)
        where A: std::alloc::Allocator, F: std::ops::FnMut(&K, &mut V) -> bool;
    impl Poller {
        // The kernel's interest table is not representable (behind &self). What contracts CAN say about it (DESIGN 2.12):
        //  * may_add / may_modify: may-call side -- add_with_mode / modify_with_mode REQUIRE them; the calloop function
        //    that owns the call states in its precondition for which arguments they hold;
        //  * w_added / w_modified / w_deleted: must-call side -- monotone history witnesses ("this call has been made
        //    and returned Ok"), produced only by the postconditions below.
        pub uninterp spec fn may_add(&self, fd: int, ev: Event, mode: PollMode) -> bool;
        pub uninterp spec fn may_modify(&self, fd: int, ev: Event, mode: PollMode) -> bool;
        pub uninterp spec fn may_delete(&self, fd: int) -> bool;
        /// caller-side guard of Poll::reregister (unit `generic`): the entry under this fd may be replaced
        pub uninterp spec fn may_rereg(&self, fd: int) -> bool;
        pub uninterp spec fn w_added(&self, fd: int, ev: Event, mode: PollMode) -> bool;
        pub uninterp spec fn w_modified(&self, fd: int, ev: Event, mode: PollMode) -> bool;
        pub uninterp spec fn w_deleted(&self, fd: int) -> bool;
        /// delete(fd) has been called (whatever it returned)
        pub uninterp spec fn w_delete_called(&self, fd: int) -> bool;
        /// notify() has been called on this poller (the wake-up it causes is sticky: ASSUMED polling/kernel behaviour)
        pub uninterp spec fn w_notify_called(&self) -> bool;
        #[verifier::external_body]
        pub fn notify(&self) -> (r: std::io::Result<()>) ensures self.w_notify_called(), { unimplemented!() }
        pub uninterp spec fn spec_supports_level(&self) -> bool;
        /// ASSUMED: a fixed capability of the platform's poller
        #[verifier::external_body]
        pub fn supports_level(&self) -> (r: bool) ensures r == self.spec_supports_level(), { unimplemented!() }
        /// ASSUMED: adds the source to the kernel's interest list; may fail. No visible state (DESIGN 1.4).
        #[verifier::external_body]
        pub unsafe fn add_with_mode(&self, source: std::os::unix::io::RawFd, interest: Event, mode: PollMode) -> (r: std::io::Result<()>)
            requires self.may_add(source as int, interest, mode),
            ensures r is Ok ==> self.w_added(source as int, interest, mode),
        { unimplemented!() }
        /// ASSUMED: replaces interest/mode/key of a registered source; may fail.
        #[verifier::external_body]
        pub fn modify_with_mode<S: std::os::unix::io::AsFd>(&self, source: S, interest: Event, mode: PollMode) -> (r: std::io::Result<()>)
            requires self.may_modify(fd_raw(&source), interest, mode),
            ensures r is Ok ==> self.w_modified(fd_raw(&source), interest, mode),
        { unimplemented!() }
        /// ASSUMED: re-arms a registered source (level-trigger emulation only); may fail.
        #[verifier::external_body]
        pub fn modify<S: std::os::unix::io::AsFd>(&self, source: S, interest: Event) -> (r: std::io::Result<()>) { unimplemented!() }
        /// ASSUMED: removes the source from the kernel's interest list; may fail. No visible state (DESIGN 1.4).
        #[verifier::external_body]
        pub fn delete<S: std::os::unix::io::AsFd>(&self, source: S) -> (r: std::io::Result<()>)
            ensures r is Ok ==> self.w_deleted(fd_raw(&source)), self.w_delete_called(fd_raw(&source)),
        { unimplemented!() }
    }
    impl Poller {
        /// ASSUMED: creates the platform's poller (epoll instance + notification eventfd); may fail
        #[verifier::external_body]
        pub fn new() -> (r: std::io::Result<Poller>) { unimplemented!() }
    }
    impl Events {
        /// the buffer holds no event (ghost)
        pub uninterp spec fn is_clear(&self) -> bool;
        /// ASSUMED: a fresh buffer holds no event
        #[verifier::external_body] pub fn new() -> (r: Events) ensures r.is_clear(), { unimplemented!() }
        #[verifier::external_body] pub fn clear(&mut self) ensures final(self).is_clear(), { unimplemented!() }
    }
    impl Poller {
        /// may-call side for the wait: with which timeout the poller may be waited on (DESIGN 2.12)
        pub uninterp spec fn may_wait(&self, timeout: Option<std::time::Duration>) -> bool;
        /// the poller has been waited on with this timeout
        pub uninterp spec fn w_waited(&self, timeout: Option<std::time::Duration>) -> bool;
        /// ASSUMED: blocks until an event, a notification or the timeout; fills `events`. No visible state.
        #[verifier::external_body]
        pub fn wait(&self, events: &mut Events, timeout: Option<std::time::Duration>) -> (r: std::io::Result<usize>)
            requires self.may_wait(timeout),
                     // (`wait` APPENDS to the buffer: events left in it from an earlier wait would be delivered a second time)
                     old(events).is_clear(),
            ensures self.w_waited(timeout),
        { unimplemented!() }
    }
    #[derive(Clone, Copy)]
    pub enum PollMode { Oneshot, Level, Edge, EdgeOneshot }
}
