//@ region prelude_polling
/// Stand-in for the `polling` crate (rule D5): same names and field layout as polling 3.x for the parts
/// calloop touches; every contract here is ASSUMED.
pub mod polling {
    use vstd::prelude::*;
    #[derive(Clone, Copy)]
    pub struct Event { pub key: usize, pub readable: bool, pub writable: bool }
    impl Event {
        #[verifier::external_body]
        pub fn none(key: usize) -> (r: Event)
            ensures r.key == key, !r.readable, !r.writable,
        { unimplemented!() }
    }
    /// opaque: the kernel's interest table lives behind &self (DESIGN 1.4)
    #[verifier::external_body] #[derive(Debug)] pub struct Poller { _p: () }
    #[verifier::external_body] #[derive(Debug)] pub struct Events { _p: () }
    impl Poller {
        /// ASSUMED: removes the source from the kernel's interest list; may fail. No visible state (DESIGN 1.4).
        #[verifier::external_body]
        pub fn delete(&self, source: impl std::os::unix::io::AsFd) -> (r: std::io::Result<()>) { unimplemented!() }
    }
    #[derive(Clone, Copy)]
    pub enum PollMode { Oneshot, Level, Edge, EdgeOneshot }
}
