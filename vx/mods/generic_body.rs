//@ item src/sources/generic.rs / struct NoIoDrop props=C16
//@ enditem
//@ item src/sources/generic.rs / struct Generic props=C16,C01
//@ pre
#[verifier::reject_recursive_types(E)]
//@ enditem

//@ item src/sources/generic.rs / impl AsFd for NoIoDrop<T> props=C16
//@ enditem

//@ region generic_specs props=C16,C01,C07,C15
impl<F: AsFd, E> Generic<F, E> {
    /// token remembered at (re)registration, cleared at unregistration
    pub closed spec fn tok(&self) -> Option<Token> { self.token }
    pub closed spec fn has_poller(&self) -> bool { self.poller is Some }
    pub closed spec fn has_file(&self) -> bool { self.file is Some }
}
//@ endregion

//@ open src/sources/generic.rs / impl Generic<F, std::io::Error>
//@ item src/sources/generic.rs / impl Generic<F, std::io::Error> / fn new props=C16 ret=r
//@ spec
        ensures r.tok() is None, !r.has_poller(), r.has_file(),
//@ enditem
//@ item src/sources/generic.rs / impl Generic<F, std::io::Error> / fn new_with_error props=C16 ret=r
//@ spec
        ensures r.tok() is None, !r.has_poller(), r.has_file(),
//@ enditem
//@ close

//@ open src/sources/generic.rs / impl Generic<F, E>
//@ item src/sources/generic.rs / impl Generic<F, E> / fn get_ref props=C16 ret=r
//@ spec
        requires self.has_file(),
//@ enditem
//@ close

//@ open src/sources/generic.rs / impl EventSource for Generic<F, E>
//@ rw R5 1 <<E: Into<Box<dyn std::error::Error + Send + Sync>>,>> => <<>>
//@ item src/sources/generic.rs / impl EventSource for Generic<F, E> / type Event props=C16
//@ enditem
//@ item src/sources/generic.rs / impl EventSource for Generic<F, E> / type Metadata props=C16
//@ enditem
//@ item src/sources/generic.rs / impl EventSource for Generic<F, E> / type Ret props=C16
//@ enditem
//@ item src/sources/generic.rs / impl EventSource for Generic<F, E> / type Error props=C16
//@ enditem
//@ region generic_protocol props=C16,C01,C07,C15,C18
    open spec fn wf(&self) -> bool { self.has_file() && (self.tok() is Some ==> self.has_poller()) }
    open spec fn registered(&self) -> bool { self.tok() is Some }
    open spec fn register_req(&self) -> bool { self.wf() && !self.registered() }
    /// the poller/token are recorded only after a successful registration (C15)
    open spec fn register_ens(o: &Self, n: &Self, ok: bool) -> bool {
        &&& n.wf()
        &&& ok ==> n.tok() is Some && n.has_poller()
        &&& !ok ==> n.tok() == o.tok() && n.has_poller() == o.has_poller()
    }
    open spec fn reregister_req(&self) -> bool { self.wf() && self.registered() }
    open spec fn reregister_ens(o: &Self, n: &Self, ok: bool) -> bool {
        &&& n.wf() && n.has_poller() == o.has_poller()
        &&& ok ==> n.tok() is Some
        &&& !ok ==> n.tok() == o.tok()
    }
    open spec fn unregister_req(&self) -> bool { self.wf() }
    open spec fn unregister_ens(o: &Self, n: &Self, ok: bool) -> bool {
        &&& n.wf()
        &&& ok ==> n.tok() is None && !n.has_poller()
        &&& !ok ==> n.tok() == o.tok() && n.has_poller() == o.has_poller()
    }
    open spec fn process_req(&self) -> bool { self.wf() }
    /// the callback runs only for the token of the current registration and only with the readiness received
    open spec fn may_call(&self, readiness: Readiness, token: Token, e: Readiness) -> bool {
        self.tok() == Some(token) && e == readiness
    }
    open spec fn cb_req<CbF: FnMut(Readiness, &mut NoIoDrop<F>) -> Result<PostAction, E>>(&self, readiness: Readiness, token: Token, callback: CbF) -> bool {
        forall|e: Readiness, m: &mut NoIoDrop<F>| self.may_call(readiness, token, e) ==> #[trigger] call_requires(callback, (e, m))
    }
    open spec fn process_ens(o: &Self, n: &Self, readiness: Readiness, token: Token, r: Result<PostAction, E>) -> bool {
        &&& n.wf() && n.tok() == o.tok() && n.has_poller() == o.has_poller()
        // an event for anything but the current registration is ignored (stale, disabled, foreign)
        &&& o.tok() != Some(token) ==> (r is Ok && r->Ok_0 is Continue)
    }
//@ endregion
//@ item src/sources/generic.rs / impl EventSource for Generic<F, E> / fn process_events props=C16,C01,C07 ret=r
//@ rw R8 1 <<process_events<C>>> => <<process_events<CbF>>>
//@ rw R8 1 <<mut callback: C,>> => <<mut callback: CbF,>>
//@ rw R8 1 <<C: FnMut(Self::Event>> => <<CbF: FnMut(Self::Event>>
//@ spec
        ensures
            old(self).tok() == Some(token) ==> exists|m0: &mut NoIoDrop<F>| #[trigger] call_ensures(callback, (readiness, m0), r),
//@ enditem
//@ item src/sources/generic.rs / impl EventSource for Generic<F, E> / fn register props=C16,C15,C01 ret=r
//@ spec
        ensures
            r is Ok ==> (final(self).tok() matches Some(t) && t.tok() == old(token_factory).next()),
//@ enditem
//@ item src/sources/generic.rs / impl EventSource for Generic<F, E> / fn reregister props=C16,C15,C01 ret=r
//@ spec
        ensures
            r is Ok ==> (final(self).tok() matches Some(t) && t.tok() == old(token_factory).next()),
//@ enditem
//@ item src/sources/generic.rs / impl EventSource for Generic<F, E> / fn unregister props=C16,C15,C07 ret=r
//@ enditem
//@ close

//@ region generic_obeys_protocol props=C18,C16
/// Generic implements the documented child protocol (used for children of TransientSource)
pub proof fn lemma_generic_obeys_protocol<F: AsFd, E>()
    ensures crate::sources::obeys_protocol::<Generic<F, E>>(),
{
}
//@ endregion
