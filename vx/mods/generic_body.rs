//@ item src/sources/generic.rs / struct NoIoDrop props=C16
//@ enditem
//@ if with_fdwrapper
//@ region asrawfd_ext props=C19
#[verifier::external_trait_specification]
pub trait ExAsRawFd {
    type ExternalTraitSpecificationFor: std::os::fd::AsRawFd;
    /// ASSUMED: as_raw_fd returns the descriptor the value designates
    fn as_raw_fd(&self) -> (r: std::os::fd::RawFd)
        ensures r as int == crate::ext::fd_raw(self);
}
/// ASSUMED: the descriptor of the newtype wrapper is the descriptor of what it wraps
#[verifier::external_body]
proof fn axiom_fdwrapper_fd<T: AsRawFd>(a: &FdWrapper<T>)
    ensures crate::ext::fd_raw(a) == crate::ext::fd_raw(&a.0),
{}
//@ endregion
//@ item src/sources/generic.rs / struct FdWrapper props=C19
//@ rw R6 1 <<pub struct FdWrapper<T: AsRawFd>(T);>> => <<pub struct FdWrapper<T: AsRawFd>(pub T);>>
//@ enditem
//@ open src/sources/generic.rs / impl FdWrapper<T>
//@ item src/sources/generic.rs / impl FdWrapper<T> / fn new props=C19 ret=r
//@ spec
        ensures r.0 == inner,
//@ enditem
//@ close
//@ open src/sources/generic.rs / impl ops::Deref for FdWrapper<T>
//@ item src/sources/generic.rs / impl ops::Deref for FdWrapper<T> / type Target props=C19
//@ enditem
//@ item src/sources/generic.rs / impl ops::Deref for FdWrapper<T> / fn deref props=C19 ret=r
//@ spec
        ensures *r == self.0,
//@ enditem
//@ close
//@ open src/sources/generic.rs / impl ops::DerefMut for FdWrapper<T>
//@ item src/sources/generic.rs / impl ops::DerefMut for FdWrapper<T> / fn deref_mut props=C19 ret=r
//@ spec
        ensures *r == old(self).0, *final(r) == final(self).0,
//@ enditem
//@ close
//@ open src/sources/generic.rs / impl AsFd for FdWrapper<T>
//@ item src/sources/generic.rs / impl AsFd for FdWrapper<T> / fn as_fd props=C19
//@ entry
        proof { axiom_fdwrapper_fd(self); }
//@ enditem
//@ close
//@ open src/sources/generic.rs / impl NoIoDrop<T>
//@ item src/sources/generic.rs / impl NoIoDrop<T> / fn get_mut props=C19 ret=r
//@ spec
        ensures *r == old(self).val(), *final(r) == final(self).val(),
//@ enditem
//@ close
//@ endif
//@ item src/sources/generic.rs / struct Generic props=C16,C01
//@ pre
#[verifier::reject_recursive_types(E)]
//@ enditem

//@ region noiodrop_axiom props=C16
/// ASSUMED: the descriptor of the newtype wrapper is the descriptor of what it wraps
#[verifier::external_body]
proof fn axiom_noiodrop_fd<T>(a: &NoIoDrop<T>)
    ensures crate::ext::fd_raw(a) == crate::ext::fd_raw(&a.0),
{}
//@ endregion
// the read-only view of the wrapper: hands out the wrapped object itself (Borrow, Deref: not extracted -- Verus cannot
// infer the named return of `Borrow::borrow`)
//@ open src/sources/generic.rs / impl AsRef<T> for NoIoDrop<T>
//@ item src/sources/generic.rs / impl AsRef<T> for NoIoDrop<T> / fn as_ref props=C16,C03 ret=r
//@ spec
        ensures *r == self.val(),
//@ enditem
//@ close
//@ open src/sources/generic.rs / impl AsFd for NoIoDrop<T>
//@ item src/sources/generic.rs / impl AsFd for NoIoDrop<T> / fn as_fd props=C16
//@ entry
        proof { axiom_noiodrop_fd(self); }
//@ enditem
//@ close

//@ region generic_specs props=C16,C01,C07,C15
impl<T> NoIoDrop<T> {
    /// the wrapped object (ghost accessor for the private field)
    pub closed spec fn val(&self) -> T { self.0 }
}
impl<F: AsFd, E> Generic<F, E> {
    /// token remembered at (re)registration, cleared at unregistration
    pub closed spec fn tok(&self) -> Option<Token> { self.token }
    pub closed spec fn has_poller(&self) -> bool { self.poller is Some }
    pub closed spec fn has_file(&self) -> bool { self.file is Some }
    /// the descriptor of the wrapped object (ghost)
    pub closed spec fn raw(&self) -> int { crate::ext::fd_raw(&self.file->Some_0.0) }
    /// the wrapped object (ghost)
    pub closed spec fn obj(&self) -> F { self.file->Some_0.0 }
    pub closed spec fn want_interest(&self) -> Interest { self.interest }
    pub closed spec fn want_mode(&self) -> Mode { self.mode }
    /// the OS poller remembered at registration (to delete the fd on unwrap/drop)
    pub closed spec fn stored_poller(&self) -> crate::polling::Poller { *self.poller->Some_0 }
    /// What `reregister` guarantees beyond the trait contract. One text for the contract of the trait impl and for the
    /// slice that proves its body under the may-call guard (unit `generic`).
    pub open spec fn reregister_post(o: &Self, n: &Self, p: &Poll, tf: &TokenFactory, ok: bool) -> bool {
        &&& (ok && o.tok() is Some) ==> (n.tok() matches Some(t) && t.tok() == tf.next())
        // C16/C02: Ok means the kernel registration HAS been replaced by (interest, mode, key of the token now remembered):
        // the key the kernel reports and the token process_events compares against cannot drift apart
        &&& (ok && o.tok() is Some) ==> p.pl().w_modified(o.raw(), crate::sys::expected_event(o.want_interest(), n.tok()->Some_0),
                                     crate::sys::spec_cvt_mode(o.want_mode(), p.pl().spec_supports_level()))
        &&& n.raw() == o.raw() && n.want_interest() == o.want_interest() && n.want_mode() == o.want_mode()
    }
    /// What `unregister` guarantees beyond the trait contract (same arrangement).
    pub open spec fn unregister_post(o: &Self, n: &Self, p: &Poll, ok: bool) -> bool {
        // C16: Ok means the wrapped fd HAS been deleted from the OS poller (for a source that held a registration: what a
        // source without one answers is not the property's business, as long as it leaves the poller alone -- the may-call
        // side of the slice)
        &&& (ok && o.tok() is Some) ==> p.pl().w_deleted(o.raw())
        &&& n.raw() == o.raw()
    }
}
//@ endregion

//@ open src/sources/generic.rs / impl Generic<F, std::io::Error>
//@ item src/sources/generic.rs / impl Generic<F, std::io::Error> / fn new props=C16,C03 ret=r
//@ spec
        ensures r.tok() is None, !r.has_poller(), r.has_file(),
                r.want_interest() == interest, r.want_mode() == mode, r.raw() == crate::ext::fd_raw(&file), r.obj() == file,
//@ enditem
//@ item src/sources/generic.rs / impl Generic<F, std::io::Error> / fn new_with_error props=C16 ret=r
//@ spec
        ensures r.tok() is None, !r.has_poller(), r.has_file(),
                r.want_interest() == interest, r.want_mode() == mode, r.raw() == crate::ext::fd_raw(&file), r.obj() == file,
//@ enditem
//@ close

//@ open src/sources/generic.rs / impl Generic<F, E>
//@ item src/sources/generic.rs / impl Generic<F, E> / fn get_ref props=C16 ret=r
//@ spec
        requires self.has_file(),
//@ enditem
//@ if with_fdwrapper
//@ item src/sources/generic.rs / impl Generic<F, E> / fn get_mut props=C19 ret=r
//@ spec
        requires old(self).has_file(),
        ensures *r == old(self).obj(), *final(r) == final(self).obj(), final(self).has_file(),
                final(self).tok() == old(self).tok(), final(self).has_poller() == old(self).has_poller(),
                final(self).want_interest() == old(self).want_interest(), final(self).want_mode() == old(self).want_mode(),
//@ enditem
//@ endif
//@ slice src/sources/generic.rs / impl Generic<F, E> / fn unwrap :: body props=C16 name=Generic::unwrap
//@ rw R16 * <<self>> => <<slf>>
//@ sig
    /// S1 slice: the whole body of Generic::unwrap. Rule R16: the by-value `mut self` receiver (unsupported) becomes a
    /// `&mut` parameter `slf`; dropped: the implicit drop of `self` at the end (it finds file and poller already taken).
    fn unwrap_body(slf: &mut Generic<F, E>) -> (r: F)
//@ spec
        requires old(slf).has_file(),
        ensures
            // C16: a Generic that still remembers a poller (i.e. is registered) deletes its fd from THAT poller before it
            // hands the object back: nothing stale stays behind
            old(slf).has_poller() ==> old(slf).stored_poller().w_delete_called(old(slf).raw()),
            !final(slf).has_poller() && !final(slf).has_file(),
//@ entry
        proof { if slf.has_file() { axiom_noiodrop_fd(&slf.file->Some_0); } }
//@ endslice
//@ close
impl<F: AsFd, E> Generic<F, E> {
//@ slice src/sources/generic.rs / impl Drop for Generic<F, E> / fn drop :: body props=C16 name=Generic::drop
//@ sig
    /// S1 slice: the whole body of `impl Drop for Generic`, lifted into an ordinary method (Verus demands
    /// `opens_invariants none / no_unwind` of a Drop impl, which the std callees here do not declare).
    fn drop_body(&mut self)
//@ spec
        ensures
            // C16: dropping a Generic that still remembers a poller deletes its fd from that poller
            (old(self).has_file() && old(self).has_poller()) ==> old(self).stored_poller().w_delete_called(old(self).raw()),
//@ entry
        proof { if self.has_file() { axiom_noiodrop_fd(&self.file->Some_0); } }
//@ endslice
}

//@ open src/sources/generic.rs / impl EventSource for Generic<F, E>
//@ rw R5 1 <<E: Into<Box<dyn std::error::Error + Send + Sync>>,>> => <<>>
//@ item src/sources/generic.rs / impl EventSource for Generic<F, E> / type Event props=C16
//@ enditem
//@ item src/sources/generic.rs / impl EventSource for Generic<F, E> / type Metadata props=C16
//@ enditem
//@ item src/sources/generic.rs / impl EventSource for Generic<F, E> / type Ret props=C16
//@ enditem
//@ item src/sources/generic.rs / impl EventSource for Generic<F, E> / type Error props=C16
//@ enditem
//@ region generic_protocol props=C16,C01,C07,C15,C18
    /// (token and poller are remembered and forgotten together)
    open spec fn wf(&self) -> bool { self.has_file() && (self.tok() is Some <==> self.has_poller()) }
    open spec fn registered(&self) -> bool { self.tok() is Some }
    /// (from the property, like the other two: `enable()` of a source that is not disabled is accepted by the loop, and a
    /// Generic that was never unregistered can be inserted again -- a registration is not presupposed to be absent)
    open spec fn register_req(&self) -> bool { self.wf() }
    /// the poller/token are recorded only after a successful registration (C15)
    open spec fn register_ens(o: &Self, n: &Self, ok: bool) -> bool {
        &&& n.wf()
        &&& ok ==> n.tok() is Some && n.has_poller()
        &&& !ok ==> n.tok() == o.tok() && n.has_poller() == o.has_poller()
    }
    /// (taken from the property: `update()` may be called on a disabled source, `disable()` / `remove()` on one that is
    /// already disabled -- so neither reregister nor unregister presupposes a registration)
    open spec fn reregister_req(&self) -> bool { self.wf() }
    open spec fn reregister_ens(o: &Self, n: &Self, ok: bool) -> bool {
        &&& n.wf() && n.has_poller() == o.has_poller()
        &&& (ok && o.tok() is Some) ==> n.tok() is Some
        &&& !ok ==> n.tok() == o.tok()
        // C07: a source that holds no registration (disabled) does not get one from a re-registration, whatever the call answers
        &&& o.tok() is None ==> n.tok() is None
    }
    open spec fn unregister_req(&self) -> bool { self.wf() }
    open spec fn unregister_ens(o: &Self, n: &Self, ok: bool) -> bool {
        &&& n.wf()
        &&& ok ==> n.tok() is None && !n.has_poller()
        &&& !ok ==> n.tok() == o.tok() && n.has_poller() == o.has_poller()
    }
    open spec fn process_req(&self) -> bool { self.wf() }
    /// the callback runs only for the token of the current registration and only with the readiness received
    open spec fn may_call(&self, readiness: Readiness, token: Token, e: Readiness) -> bool {
        self.tok() == Some(token) && e == readiness
    }
    open spec fn cb_req<CbF: FnMut(Readiness, &mut NoIoDrop<F>) -> Result<PostAction, E>>(&self, readiness: Readiness, token: Token, callback: CbF) -> bool {
        forall|e: Readiness, m: &mut NoIoDrop<F>| self.may_call(readiness, token, e) ==> #[trigger] call_requires(callback, (e, m))
    }
    open spec fn process_ens(o: &Self, n: &Self, readiness: Readiness, token: Token, r: Result<PostAction, E>) -> bool {
        &&& n.wf() && n.tok() == o.tok() && n.has_poller() == o.has_poller()
        // an event for anything but the current registration is ignored (stale, disabled, foreign)
        &&& o.tok() != Some(token) ==> (r is Ok && r->Ok_0 is Continue)
    }
//@ endregion
//@ item src/sources/generic.rs / impl EventSource for Generic<F, E> / fn process_events props=C16,C01,C07,C03,C19,C02 ret=r
//@ rw R8 1 <<process_events<C>>> => <<process_events<CbF>>>
//@ rw R8 1 <<mut callback: C,>> => <<mut callback: CbF,>>
//@ rw R8 1 <<C: FnMut(Self::Event>> => <<CbF: FnMut(Self::Event>>
//@ spec
        ensures
            old(self).tok() == Some(token) ==> exists|m0: &mut NoIoDrop<F>| #[trigger] call_ensures(callback, (readiness, m0), r),
//@ enditem
//@ item src/sources/generic.rs / impl EventSource for Generic<F, E> / fn register props=C16,C15,C01,C02,C03,C19 ret=r
//@ spec
        ensures
            r is Ok ==> (final(self).tok() matches Some(t) && t.tok() == old(token_factory).next()),
            // C16: Ok means the wrapped fd HAS been added to the OS poller, with the interest and mode the Generic was
            // built with and under the key of exactly the token it now remembers (and compares events against) ...
            r is Ok ==> old(poll).pl().w_added(old(self).raw(), crate::sys::expected_event(old(self).want_interest(), final(self).tok()->Some_0),
                                          crate::sys::spec_cvt_mode(old(self).want_mode(), old(poll).pl().spec_supports_level())),
            // ... and the poller remembered for unwrap/drop is that very poller
            r is Ok ==> final(self).stored_poller() == old(poll).pl(),
            final(self).raw() == old(self).raw(), final(self).want_interest() == old(self).want_interest(), final(self).want_mode() == old(self).want_mode(),
//@ entry
        proof { broadcast use crate::ext::axiom_fd_raw_ref; }
//@ enditem
//@ if generic_guard
//@ item src/sources/generic.rs / impl EventSource for Generic<F, E> / fn reregister props=C16,C15,C01,C02,C03,C19 sigonly ret=r
//@ else
//@ item src/sources/generic.rs / impl EventSource for Generic<F, E> / fn reregister props=C16,C15,C01,C02,C03,C19 ret=r
//@ endif
//@ spec
        ensures Self::reregister_post(old(self), final(self), &*old(poll), &*old(token_factory), r is Ok),
//@ if !generic_guard
//@ entry
        proof { broadcast use crate::ext::axiom_fd_raw_ref; }
//@ endif
//@ enditem
//@ if generic_guard
//@ item src/sources/generic.rs / impl EventSource for Generic<F, E> / fn unregister props=C16,C15,C07,C03,C19 sigonly ret=r
//@ else
//@ item src/sources/generic.rs / impl EventSource for Generic<F, E> / fn unregister props=C16,C15,C07,C03,C19 ret=r
//@ endif
//@ spec
        ensures Self::unregister_post(old(self), final(self), &*old(poll), r is Ok),
//@ if !generic_guard
//@ entry
        proof { broadcast use crate::ext::axiom_fd_raw_ref; }
//@ endif
//@ enditem
//@ close

//@ if generic_guard
impl<F: AsFd, E> Generic<F, E> {
//@ slice src/sources/generic.rs / impl EventSource for Generic<F, E> / fn reregister :: body props=C16,C15,C01,C02,C03,C19,C07 name=Generic::reregister
//@ sig
    /// S1 slice: the whole body of `<Generic as EventSource>::reregister`, as a method of its own: a trait impl cannot carry a
    /// precondition of its own, and the may-call side below is one. The trait impl is signature-only in this unit; its
    /// contract (`reregister_ens`, `reregister_post`) is what is proved here, from the same text.
    fn reregister_body(&mut self, poll: &mut Poll, token_factory: &mut TokenFactory) -> (r: crate::Result<()>)
//@ spec
        requires
            old(self).wf(),
            // C16/C07 (may-call side, taken from the property: "disabling or enabling one source never disturbs any other",
            // "the same fd can be inserted again"): the ONLY poller entry this source may replace is the one of its own
            // fd, and only while it HOLDS a registration -- once it has been unregistered (disabled) the entry under that
            // fd number may belong to another source
            forall|d: int| #[trigger] old(poll).pl().may_rereg(d) <==> (d == old(self).raw() && old(self).tok() is Some),
        ensures
            Self::reregister_ens(old(self), final(self), r is Ok),
            Self::reregister_post(old(self), final(self), &*old(poll), &*old(token_factory), r is Ok),
            final(token_factory).reg() == old(token_factory).reg(),
//@ entry
        proof { broadcast use crate::ext::axiom_fd_raw_ref; }
//@ endslice
//@ slice src/sources/generic.rs / impl EventSource for Generic<F, E> / fn unregister :: body props=C16,C15,C07,C03,C19 name=Generic::unregister
//@ sig
    /// S1 slice: the whole body of `<Generic as EventSource>::unregister` (same arrangement).
    fn unregister_body(&mut self, poll: &mut Poll) -> (r: crate::Result<()>)
//@ spec
        requires
            old(self).wf(),
            // C16/C07 (may-call side): the ONLY poller entry this source may delete is the one of its own fd, and only
            // while it holds a registration (a second disable(), or remove() of a disabled source, must not take the fd of
            // whoever was inserted on it since out of the poller)
            forall|d: int| #[trigger] old(poll).pl().may_delete(d) <==> (d == old(self).raw() && old(self).tok() is Some),
        ensures
            Self::unregister_ens(old(self), final(self), r is Ok),
            Self::unregister_post(old(self), final(self), &*old(poll), r is Ok),
//@ entry
        proof { broadcast use crate::ext::axiom_fd_raw_ref; }
//@ endslice
}
//@ endif

//@ region generic_obeys_protocol props=C18,C16
/// Generic implements the documented child protocol (used for children of TransientSource)
pub proof fn lemma_generic_obeys_protocol<F: AsFd, E>()
    ensures crate::sources::obeys_protocol::<Generic<F, E>>(),
{
}
//@ endregion
