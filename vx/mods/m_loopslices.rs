pub mod loop_logic {
use vstd::prelude::*;
use std::cell::{Cell, RefCell};
use std::rc::{Rc, Weak};
use std::sync::atomic::{AtomicBool, Ordering};
use std::sync::Arc;
use std::time::{Duration, Instant};
use crate::polling::Poller;
use std::{io, slice};
use crate::list::{SourceEntry, SourceList};
use crate::sources::{Dispatcher, EventSource, Idle, IdleDispatcher, EventDispatcher};
use crate::sys::{Notifier, PollEvent};
use crate::token::TokenInner;
use crate::{AdditionalLifecycleEventsSet, Poll, PostAction, Readiness, Token, TokenFactory};
use crate::error::InsertError;

//@ include regtoken_body
//@ include loop_types_body
//@ include loop_slices_body
//@ include loop_ops_body
//@ include loop_lifecycle_body
//@ include loop_idles_body
//@ include loop_run_body
} // mod loop_logic
pub use crate::loop_logic::RegistrationToken;
pub mod sys {
use vstd::prelude::*;
use std::{cell::RefCell, collections::HashMap, rc::Rc, sync::Arc, time::{Duration, Instant}};
use std::os::unix::io::{AsFd, AsRawFd, BorrowedFd as Borrowed, RawFd as Raw};
use crate::polling::{self, Event, Events, PollMode, Poller};
use crate::sources::timer::TimerWheel;
use crate::token::TokenInner;
use crate::RegistrationToken;

//@ include sys_tokens_body
//@ include sys_poll_body
} // mod sys
pub use crate::sys::{Interest, Mode, Poll, Readiness, Token, TokenFactory};
pub mod sources {
use vstd::prelude::*;
use std::{cell::{Ref, RefCell, RefMut}, ops::{BitOr, BitOrAssign}, rc::Rc};
pub use crate::loop_logic::EventIterator;
use crate::{sys::TokenFactory, Poll, Readiness, RegistrationToken, Token};

//@ include sources_postaction_body
//@ include sources_traits_body
//@ include sources_dispatch_body
//@ include sources_idle_body
//@ include sources_dispatcher_type_body
pub mod timer {
use vstd::prelude::*;
use std::{cell::RefCell, collections::BinaryHeap, rc::Rc, time::{Duration, Instant}};
use crate::{EventSource, Poll, PostAction, Readiness, Token, TokenFactory};
//@ include timer_types_body
} // mod timer
} // mod sources
pub use crate::sources::{PostAction, EventSource};
pub(crate) use crate::sources::{EventDispatcher, AdditionalLifecycleEventsSet};
//@ include m_list
