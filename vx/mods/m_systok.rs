pub mod loop_logic {
use vstd::prelude::*;
use crate::token::TokenInner;

//@ include regtoken_body
} // mod loop_logic
pub use crate::loop_logic::RegistrationToken;
pub mod sys {
use vstd::prelude::*;
use crate::polling::{Event, PollMode};
use crate::token::TokenInner;
use crate::RegistrationToken;

//@ include sys_tokens_body
} // mod sys
pub use crate::sys::{Interest, Mode, Readiness, Token, TokenFactory};
