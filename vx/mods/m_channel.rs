pub mod channel {
use vstd::prelude::*;
use std::cmp;
use std::ops;
use std::sync::{mpsc, Arc};
use crate::ext_mpsc::*;
use crate::{EventSource, Poll, PostAction, Readiness, Token, TokenFactory};
use super::ping::{make_ping, Ping, PingError, PingSource};
//@ include channel_body
} // mod channel
