//@ item src/loop_logic.rs / struct LoopSignal props=C11
//@ enditem
//@ region run_specs props=C11
/// identity stand-ins carrying witnesses for the stop flag (rule R19; vstd declares contract-free specs for std atomics)
pub uninterp spec fn w_flag_stored(a: &AtomicBool, v: bool) -> bool;
pub uninterp spec fn w_flag_loaded(a: &AtomicBool, v: bool) -> bool;
#[verifier::external_body]
fn flag_store(a: &AtomicBool, v: bool, o: Ordering)
    ensures w_flag_stored(a, v),
{ a.store(v, o) }
#[verifier::external_body]
fn flag_load(a: &AtomicBool, o: Ordering) -> (r: bool)
    ensures w_flag_loaded(a, r),
{ a.load(o) }
impl<'l, Data> EventLoop<'l, Data> {
    pub closed spec fn stop_flag(&self) -> &AtomicBool { &self.signals.stop }
}
impl LoopSignal {
    pub closed spec fn stop_flag(&self) -> &AtomicBool { &self.signal.stop }
    pub closed spec fn note(&self) -> crate::sys::Notifier { self.notifier }
}
//@ endregion

//@ open src/loop_logic.rs / impl LoopSignal
//@ item src/loop_logic.rs / impl LoopSignal / fn stop props=C11
//@ rw R19 * <<self.signal.stop.store(>> => <<flag_store(&self.signal.stop, >>
//@ spec
        ensures
            // C11: stop() has raised the flag run()/block_on() test at the top of every iteration
            w_flag_stored(self.stop_flag(), true),
//@ enditem
//@ item src/loop_logic.rs / impl LoopSignal / fn wakeup props=C11
//@ spec
        ensures
            // C11: wakeup() has notified the poller (the notification is sticky: kernel/polling behaviour, assumed)
            self.note().w_notified(),
//@ enditem
//@ close

//@ open src/loop_logic.rs / impl EventLoop<'l, Data>
//@ item src/loop_logic.rs / impl EventLoop<'l, Data> / fn run props=C11 ret=r
//@ rw R19 * <<self.signals.stop.store(>> => <<flag_store(&self.signals.stop, >>
//@ rw R19 * <<self.signals.stop.load(>> => <<flag_load(&self.signals.stop, >>
//@ pre
    #[verifier::exec_allows_no_decreases_clause]
//@ spec
        requires
            forall|d: &mut Data| #[trigger] call_requires(cb, (d,)),
        ensures
            // C11: run() never returns Ok without having read the stop flag as raised
            r is Ok ==> w_flag_loaded(old(self).stop_flag(), true),
//@ loop 1
        invariant
            forall|d: &mut Data| #[trigger] call_requires(cb, (d,)),
            self.stop_flag() == old(self).stop_flag(),
        ensures
            // (stated on the loop so that it holds for either form of it: `while !stop {..}` or `loop { if stop { break } .. }`)
            w_flag_loaded(old(self).stop_flag(), true),
//@ enditem
//@ close
