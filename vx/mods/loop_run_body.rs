//@ item src/loop_logic.rs / struct LoopSignal props=C11
//@ enditem
//@ region run_specs props=C11
/// identity stand-ins carrying witnesses for the stop flag (rule R19; vstd declares contract-free specs for std atomics)
pub uninterp spec fn w_flag_stored(a: &AtomicBool, v: bool) -> bool;
pub uninterp spec fn w_flag_loaded(a: &AtomicBool, v: bool) -> bool;
#[verifier::external_body]
fn flag_store(a: &AtomicBool, v: bool, o: Ordering)
    ensures w_flag_stored(a, v),
{ a.store(v, o) }
#[verifier::external_body]
fn flag_load(a: &AtomicBool, o: Ordering) -> (r: bool)
    ensures w_flag_loaded(a, r),
{ a.load(o) }
/// the per-iteration closure of run()/block_on has been called on the user data in state d
pub uninterp spec fn w_closure_ran<D>(d: D) -> bool;
pub uninterp spec fn w_flag_swapped(a: &AtomicBool, new: bool, prev: bool) -> bool;
#[verifier::external_body]
fn flag_swap(a: &AtomicBool, v: bool, o: Ordering) -> (r: bool)
    ensures w_flag_swapped(a, v, r),
{ a.swap(v, o) }
/// the flag has been read as `v` while the user data was in state `d` (ghost argument, erased): lets a contract say that
/// NO user code ran between a stop check and what follows it -- user code gets `&mut Data` and may leave it in any state
pub uninterp spec fn w_flag_loaded_at<D>(a: &AtomicBool, v: bool, d: D) -> bool;
#[verifier::external_body]
fn flag_load_at<D>(a: &AtomicBool, o: Ordering, Ghost(d): Ghost<D>) -> (r: bool)
    ensures w_flag_loaded(a, r), w_flag_loaded_at(a, r, d),
{ a.load(o) }
impl<'l, Data> EventLoop<'l, Data> {
    pub closed spec fn stop_flag(&self) -> &AtomicBool { &self.signals.stop }
    pub closed spec fn ready_flag(&self) -> &AtomicBool { &self.signals.future_ready }
}
// ---- block_on: the future is polled through a stand-in (rule R21: `Pin<&mut Fut>::as_mut().poll(cx)`; Pin is outside
// what Verus accepts). ASSUMED: nothing but the witnesses of what the poll returned; the may-call predicate is the device
// of DESIGN 2.12 for "poll only after ..".
#[verifier::external_type_specification] #[verifier::external_body]
pub struct ExContext<'a>(std::task::Context<'a>);
#[verifier::external_type_specification] #[verifier::accept_recursive_types(T)]
pub struct ExTaskPoll<T>(std::task::Poll<T>);
#[verifier::external_trait_specification]
pub trait ExFuture {
    type ExternalTraitSpecificationFor: std::future::Future;
    type Output;
}
pub uninterp spec fn may_poll_future() -> bool;
pub uninterp spec fn w_future_ready<R>(v: R) -> bool;
pub uninterp spec fn w_future_polled() -> bool;
#[verifier::external_body]
fn poll_pinned<Fut: std::future::Future>(f: &mut Fut, cx: &mut std::task::Context<'_>) -> (r: std::task::Poll<Fut::Output>)
    requires may_poll_future(),
    ensures w_future_polled(), r matches std::task::Poll::Ready(v) ==> w_future_ready(v),
{ unimplemented!() }
impl LoopSignal {
    pub closed spec fn stop_flag(&self) -> &AtomicBool { &self.signal.stop }
    pub closed spec fn note(&self) -> crate::sys::Notifier { self.notifier }
}
//@ endregion

//@ open src/loop_logic.rs / impl LoopSignal
//@ item src/loop_logic.rs / impl LoopSignal / fn stop props=C11
//@ rw R19 * <<self.signal.stop.store(>> => <<flag_store(&self.signal.stop, >>
//@ spec
        ensures
            // C11: stop() has raised the flag run()/block_on() test at the top of every iteration
            w_flag_stored(self.stop_flag(), true),
//@ enditem
//@ item src/loop_logic.rs / impl LoopSignal / fn wakeup props=C11
//@ spec
        ensures
            // C11: wakeup() has notified the poller (the notification is sticky: kernel/polling behaviour, assumed)
            self.note().w_notified(),
//@ enditem
//@ close

//@ open src/loop_logic.rs / impl EventLoop<'l, Data>
//@ item src/loop_logic.rs / impl EventLoop<'l, Data> / fn run props=C11 ret=r
//@ rw R19 * <<self.signals.stop.store(>> => <<flag_store(&self.signals.stop, >>
//@ rw R19 * <<self.signals.stop.load(Ordering::Acquire)>> => <<flag_load_at(&self.signals.stop, Ordering::Acquire, Ghost(*data))>>
//@ before <<self.dispatch(timeout, data)?;>>
            // C11 ("at most the iteration in progress"): a new iteration is entered only right after a stop check that said
            // "not stopped" -- no user code (the per-iteration closure) between the check and the dispatch
            assert(w_flag_loaded_at(self.stop_flag(), false, *data));
//@ after <<self.dispatch(timeout, data)?;>>
            proof { dispatched = Some(*data); }
//@ entry
        let ghost mut dispatched: Option<Data> = None;
//@ pre
    #[verifier::exec_allows_no_decreases_clause]
//@ spec
        requires
            forall|d: &mut Data| #[trigger] call_requires(cb, (d,)),
            // (must-call device) a call of the per-iteration closure leaves the witness "ran on the state the dispatch left"
            forall|d: &mut Data| #[trigger] call_ensures(cb, (d,), ()) ==> w_closure_ran(*d),
        ensures
            // C11: run() never returns Ok without having read the stop flag as raised
            r is Ok ==> w_flag_loaded(old(self).stop_flag(), true),
            // ... and it starts by LOWERING the flag: a stop request left over from an earlier run does not end this one
            // before its first iteration (only a stop issued after run() has begun counts)
            w_flag_stored(old(self).stop_flag(), false),
//@ loop 1
        invariant
            forall|d: &mut Data| #[trigger] call_requires(cb, (d,)),
            self.stop_flag() == old(self).stop_flag(),
            w_flag_stored(old(self).stop_flag(), false),
            forall|d: &mut Data| #[trigger] call_ensures(cb, (d,), ()) ==> w_closure_ran(*d),
            // C11: every iteration that dispatched has also run the per-iteration closure (on the state the dispatch left)
            dispatched matches Some(d0) ==> w_closure_ran(d0),
        ensures
            // (stated on the loop so that it holds for either form of it: `while !stop {..}` or `loop { if stop { break } .. }`)
            w_flag_loaded(old(self).stop_flag(), true),
//@ enditem
//@ close

impl<'l, Data> EventLoop<'l, Data> {
//@ slice src/loop_logic.rs / impl EventLoop<'l, Data> / fn block_on :: after <<let mut context = Context::from_waker(&waker);>> props=C11 name=EventLoop::block_on::loop
//@ rw R19 * <<self.signals.stop.store(>> => <<flag_store(&self.signals.stop, >>
//@ rw R19 * <<self.signals.stop.load(Ordering::Acquire)>> => <<flag_load_at(&self.signals.stop, Ordering::Acquire, Ghost(*data))>>
//@ before <<cb(data);>>
            // C13/C11: in block_on too the idle phase runs after the event phase and before the per-iteration closure
            assert(self.idles_done());
//@ before <<self.dispatch_events(None, data)?;>>
            // C11: an iteration is entered only right after a stop check that said "not stopped" (no per-iteration closure in between)
            assert(w_flag_loaded_at(self.stop_flag(), false, *data));
//@ rw R19 * <<self.signals.future_ready.store(>> => <<flag_store(&self.signals.future_ready, >>
//@ rw R19 * <<self.signals.future_ready.swap(>> => <<flag_swap(&self.signals.future_ready, >>
//@ rw R21 1 <<future.as_mut().poll(&mut context)>> => <<poll_pinned(&mut *future, &mut context)>>
//@ rw R21 1 <<if let Poll::Ready(result) =>> => <<if let std::task::Poll::Ready(result) =>>
//@ sig
    /// S1 slice of EventLoop::block_on: everything after the construction of the waker and its Context (nested `impl Wake`,
    /// `pin_mut!`, `Waker::from(Arc<..>)` are outside what Verus accepts). Free variables `future` (pinned to the stack in
    /// the real code: R21), `context`, `data`, `cb` become parameters; R19: atomics through identity stand-ins.
    #[verifier::exec_allows_no_decreases_clause]
    fn block_on_loop<R, Fut: std::future::Future<Output = R>, C: FnMut(&mut Data)>(&mut self, future: &mut Fut, mut context: std::task::Context<'_>, data: &mut Data, mut cb: C) -> (r: crate::Result<Option<R>>)
//@ spec
        requires
            forall|d: &mut Data| #[trigger] call_requires(cb, (d,)),
            forall|d: &mut Data| #[trigger] call_ensures(cb, (d,), ()) ==> w_closure_ran(*d),
            // C11 (may-call side): the future may be polled ONLY by an iteration whose swap found the ready flag set -- the
            // swap clears it BEFORE the poll, so a wake that arrives while the future is being polled sets it again and
            // is seen by the next iteration (never overwritten)
            may_poll_future() <==> w_flag_swapped(old(self).ready_flag(), false, true),
        ensures
            // C11: polled initially: the ready flag is raised before the first iteration; the stop flag is lowered first
            w_flag_stored(old(self).ready_flag(), true),
            w_flag_stored(old(self).stop_flag(), false),
            // Some(v) exactly from a poll that returned Ready(v); None only after the stop flag was read as raised
            r matches Ok(Some(v)) ==> w_future_ready(v),
            r matches Ok(None) ==> w_flag_loaded(old(self).stop_flag(), true),
//@ after <<self.dispatch_idles(data);>>
            proof { dispatched = Some(*data); }
//@ entry
        let ghost mut dispatched: Option<Data> = None;
//@ loop 1
        invariant_except_break
            output is None,
        invariant
            forall|d: &mut Data| #[trigger] call_requires(cb, (d,)),
            forall|d: &mut Data| #[trigger] call_ensures(cb, (d,), ()) ==> w_closure_ran(*d),
            // every iteration that dispatched has also run the per-iteration closure
            dispatched matches Some(d0) ==> w_closure_ran(d0),
            self.stop_flag() == old(self).stop_flag(), self.ready_flag() == old(self).ready_flag(),
            may_poll_future() <==> w_flag_swapped(old(self).ready_flag(), false, true),
            w_flag_stored(old(self).ready_flag(), true), w_flag_stored(old(self).stop_flag(), false),
        ensures
            output matches Some(v) ==> w_future_ready(v),
            output is None ==> w_flag_loaded(old(self).stop_flag(), true),
//@ endslice
}

impl LoopSignal {
    pub closed spec fn ready_flag(&self) -> &AtomicBool { &self.signal.future_ready }
//@ slice src/loop_logic.rs / impl EventLoop<'l, Data> / fn block_on :: stmts <<self.0.signal.future_ready.store(>>#1/2 .. <<self.0.notifier.notify().ok();>>#1/2 props=C11 name=EventLoop::block_on::EventLoopWaker::wake
//@ rw R16 * <<self.0.notifier>> => <<slf.notifier>>
//@ rw R19 * <<self.0.signal.future_ready.store(>> => <<flag_store(&slf.signal.future_ready, >>
//@ sig
    /// S1 slice of EventLoop::block_on: the body of the nested `<EventLoopWaker as Wake>::wake` (what waking the blocked
    /// future's waker does, from any thread). R16: the receiver `self: Arc<EventLoopWaker>` -- a newtype around LoopSignal
    /// declared inside the function -- becomes `slf: &LoopSignal` (`self.0.` is `slf.`); R19 as above.
    fn block_on_waker_wake(slf: &LoopSignal)
//@ spec
        ensures
            // C11: a wake raises the ready flag (so the next iteration polls the future) and notifies the poller (so a wait
            // in progress -- or the next one -- returns)
            w_flag_stored(slf.ready_flag(), true), slf.note().w_notified(),
//@ endslice
//@ slice src/loop_logic.rs / impl EventLoop<'l, Data> / fn block_on :: stmts <<self.0.signal.future_ready.store(>>#2/2 .. <<self.0.notifier.notify().ok();>>#2/2 props=C11 name=EventLoop::block_on::EventLoopWaker::wake_by_ref
//@ rw R16 * <<self.0.notifier>> => <<slf.notifier>>
//@ rw R19 * <<self.0.signal.future_ready.store(>> => <<flag_store(&slf.signal.future_ready, >>
//@ sig
    /// S1 slice: the body of the nested `<EventLoopWaker as Wake>::wake_by_ref`, as above.
    fn block_on_waker_wake_by_ref(slf: &LoopSignal)
//@ spec
        ensures
            w_flag_stored(slf.ready_flag(), true), slf.note().w_notified(),
//@ endslice
}
