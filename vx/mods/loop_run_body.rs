//@ item src/loop_logic.rs / struct LoopSignal props=C11
//@ enditem
//@ region run_specs props=C11
/// identity stand-ins carrying witnesses for the stop flag (rule R19; vstd declares contract-free specs for std atomics)
pub uninterp spec fn w_flag_stored(a: &AtomicBool, v: bool) -> bool;
pub uninterp spec fn w_flag_loaded(a: &AtomicBool, v: bool) -> bool;
#[verifier::external_body]
fn flag_store(a: &AtomicBool, v: bool, o: Ordering)
    ensures w_flag_stored(a, v),
{ a.store(v, o) }
#[verifier::external_body]
fn flag_load(a: &AtomicBool, o: Ordering) -> (r: bool)
    ensures w_flag_loaded(a, r),
{ a.load(o) }
/// the per-iteration closure of run()/block_on has been called on the user data in state d
pub uninterp spec fn w_closure_ran<D>(d: D) -> bool;
pub uninterp spec fn w_flag_swapped(a: &AtomicBool, new: bool, prev: bool) -> bool;
#[verifier::external_body]
fn flag_swap(a: &AtomicBool, v: bool, o: Ordering) -> (r: bool)
    ensures w_flag_swapped(a, v, r),
{ a.swap(v, o) }
/// the flag has been read as `v` while the user data was in state `d` (ghost argument, erased): lets a contract say that
/// NO user code ran between a stop check and what follows it -- user code gets `&mut Data` and may leave it in any state
pub uninterp spec fn w_flag_loaded_at<D>(a: &AtomicBool, v: bool, d: D) -> bool;
#[verifier::external_body]
fn flag_load_at<D>(a: &AtomicBool, o: Ordering, Ghost(d): Ghost<D>) -> (r: bool)
    ensures w_flag_loaded(a, r), w_flag_loaded_at(a, r, d),
{ a.load(o) }
impl<'l, Data> EventLoop<'l, Data> {
    pub closed spec fn stop_flag(&self) -> &AtomicBool { &self.signals.stop }
    pub closed spec fn ready_flag(&self) -> &AtomicBool { &self.signals.future_ready }
}
// ---- block_on: the future is polled through a stand-in (rule R21: `Pin<&mut Fut>::as_mut().poll(cx)`; Pin is outside
// what Verus accepts). ASSUMED: nothing but the witnesses of what the poll returned; the may-call predicate is the device
// of DESIGN 2.12 for "poll only after ..".
#[verifier::external_type_specification] #[verifier::external_body]
pub struct ExContext<'a>(std::task::Context<'a>);
#[verifier::external_type_specification] #[verifier::accept_recursive_types(T)]
pub struct ExTaskPoll<T>(std::task::Poll<T>);
#[verifier::external_trait_specification]
pub trait ExFuture {
    type ExternalTraitSpecificationFor: std::future::Future;
    type Output;
}
pub uninterp spec fn may_poll_future() -> bool;
pub uninterp spec fn w_future_ready<R>(v: R) -> bool;
pub uninterp spec fn w_future_polled() -> bool;
#[verifier::external_body]
fn poll_pinned<Fut: std::future::Future>(f: &mut Fut, cx: &mut std::task::Context<'_>) -> (r: std::task::Poll<Fut::Output>)
    requires may_poll_future(),
    ensures w_future_polled(), r matches std::task::Poll::Ready(v) ==> w_future_ready(v),
{ unimplemented!() }
impl LoopSignal {
    pub closed spec fn stop_flag(&self) -> &AtomicBool { &self.signal.stop }
    pub closed spec fn note(&self) -> crate::sys::Notifier { self.notifier }
}
//@ endregion

//@ open src/loop_logic.rs / impl LoopSignal
//@ item src/loop_logic.rs / impl LoopSignal / fn stop props=C11
//@ rw R19 * <<self.signal.stop.store(>> => <<flag_store(&self.signal.stop, >>
//@ spec
        ensures
            // C11: stop() has raised the flag run()/block_on() test at the top of every iteration
            w_flag_stored(self.stop_flag(), true),
//@ enditem
//@ item src/loop_logic.rs / impl LoopSignal / fn wakeup props=C11
//@ spec
        ensures
            // C11: wakeup() has notified the poller (the notification is sticky: kernel/polling behaviour, assumed)
            self.note().w_notified(),
//@ enditem
//@ close

//@ region loop_ctor_specs props=C11,C09,C13,C14,C06
/// Rule R28: `Default::default()` for the field `sources_with_additional_lifecycle_events: RefCell<AdditionalLifecycleEventsSet>`
/// becomes a call of this stand-in. ASSUMED: `RefCell<T>::default()` is `RefCell::new(T::default())` (std) and the derived
/// `Default` of AdditionalLifecycleEventsSet (one Vec field) is the empty set.
#[verifier::external_body]
fn lifecycle_set_default() -> (r: RefCell<AdditionalLifecycleEventsSet>)
    ensures crate::ext::refcell_init(&r)@.len() == 0,
{ Default::default() }
/// what an AtomicBool was created with (ghost); identity stand-in for `AtomicBool::new(v)` (rule R19)
pub uninterp spec fn flag_init(a: &AtomicBool) -> bool;
#[verifier::external_body]
fn flag_new(v: bool) -> (r: AtomicBool)
    ensures flag_init(&r) == v,
{ AtomicBool::new(v) }
/// what a Cell was created with (ghost; says nothing about later contents)
pub uninterp spec fn cell_init<T>(c: &Cell<T>) -> T;
#[verifier::external_body]
fn cell_new<T>(v: T) -> (r: Cell<T>)
    ensures cell_init(&r) == v,
{ Cell::new(v) }
impl<'l, Data> EventLoop<'l, Data> {
    /// the poller wake-ups from this loop's own handles (block_on's waker) go to
    pub closed spec fn own_poller(&self) -> Poller { *self.poller }
    pub closed spec fn inner(&self) -> Rc<LoopInner<'l, Data>> { self.handle.inner }
    pub closed spec fn sig(&self) -> Arc<Signals> { self.signals }
    pub closed spec fn pending_synthetic(&self) -> Seq<PollEvent> { self.synthetic_events@ }
    // what the loop's cells were created with (ghost accessors: LoopInner is crate-private)
    pub closed spec fn init_poll(&self) -> Poll { crate::ext::refcell_init(&self.handle.inner.poll) }
    pub closed spec fn init_pending(&self) -> PostAction { cell_init(&self.handle.inner.pending_action) }
    pub closed spec fn init_slots(&self) -> nat { crate::ext::refcell_init(&self.handle.inner.sources)@.len() }
    pub closed spec fn init_slots_wf(&self) -> bool { crate::ext::refcell_init(&self.handle.inner.sources).wf() }
    pub closed spec fn init_idles(&self) -> nat { crate::ext::refcell_init(&self.handle.inner.idles)@.len() }
    pub closed spec fn init_lifecycle(&self) -> nat { crate::ext::refcell_init(&self.handle.inner.sources_with_additional_lifecycle_events)@.len() }
    pub closed spec fn init_timers_fresh(&self) -> bool { crate::ext::refcell_init(&*crate::ext::refcell_init(&self.handle.inner.poll).timers).is_fresh() }
}
impl<'l, Data> LoopHandle<'l, Data> {
    pub closed spec fn inner(&self) -> Rc<LoopInner<'l, Data>> { self.inner }
}
impl LoopSignal {
    pub closed spec fn sig(&self) -> Arc<Signals> { self.signal }
}
//@ endregion
//@ open src/loop_logic.rs / impl Clone for LoopHandle<'_, Data>
//@ item src/loop_logic.rs / impl Clone for LoopHandle<'_, Data> / fn clone props=C11,C06 ret=r
//@ spec
        ensures
            // a cloned handle operates on the same loop state
            r.inner() == self.inner(),
//@ enditem
//@ close
//@ open src/loop_logic.rs / impl EventLoop<'l, Data>
//@ item src/loop_logic.rs / impl EventLoop<'l, Data> / fn try_new props=C11,C09,C13,C14,C06 ret=r
//@ rw R19 * <<AtomicBool::new(>> => <<flag_new(>>
//@ rw R28 1 <<sources_with_additional_lifecycle_events: Default::default()>> => <<sources_with_additional_lifecycle_events: lifecycle_set_default()>>
//@ rw R28 1 <<pending_action: Cell::new(>> => <<pending_action: cell_new(>>
//@ after <<let poll = Poll::new()?;>>
        proof { poll.lemma_pl(); }
//@ spec
        ensures
            // C11: the poller the loop's own wake-up handles notify is the one its Poll waits on
            r matches Ok(l) ==> l.own_poller() == l.init_poll().pl(),
            // C11: a fresh loop is not stopped, and no future is marked ready
            r matches Ok(l) ==> !flag_init(l.stop_flag()) && !flag_init(l.ready_flag()),
            // C09: nothing is deferred before the first event
            r matches Ok(l) ==> l.init_pending() == PostAction::Continue,
            // C06/C01: no slot, C13: no idle, C14: no lifecycle entry, no synthetic event left over
            r matches Ok(l) ==> l.init_slots() == 0 && l.init_slots_wf(),
            r matches Ok(l) ==> l.init_idles() == 0,
            r matches Ok(l) ==> l.init_lifecycle() == 0,
            r matches Ok(l) ==> l.pending_synthetic().len() == 0,
            // C05: no timer armed
            r matches Ok(l) ==> l.init_timers_fresh(),
//@ enditem
//@ item src/loop_logic.rs / impl EventLoop<'l, Data> / fn handle props=C11,C06 ret=r
//@ spec
        ensures
            // every handle operates on this loop's state
            r.inner() == self.inner(),
//@ enditem
//@ item src/loop_logic.rs / impl EventLoop<'l, Data> / fn run props=C11 ret=r
//@ rw R19 * <<self.signals.stop.store(>> => <<flag_store(&self.signals.stop, >>
//@ rw R19 * <<self.signals.stop.load(Ordering::Acquire)>> => <<flag_load_at(&self.signals.stop, Ordering::Acquire, Ghost(*data))>>
//@ before <<self.dispatch(timeout, data)?;>>
            // C11 ("at most the iteration in progress"): a new iteration is entered only right after a stop check that said
            // "not stopped" -- no user code (the per-iteration closure) between the check and the dispatch
            assert(w_flag_loaded_at(self.stop_flag(), false, *data));
//@ after <<self.dispatch(timeout, data)?;>>
            proof { dispatched = Some(*data); }
//@ entry
        let ghost mut dispatched: Option<Data> = None;
//@ pre
    #[verifier::exec_allows_no_decreases_clause]
//@ spec
        requires
            forall|d: &mut Data| #[trigger] call_requires(cb, (d,)),
            // (must-call device) a call of the per-iteration closure leaves the witness "ran on the state the dispatch left"
            forall|d: &mut Data| #[trigger] call_ensures(cb, (d,), ()) ==> w_closure_ran(*d),
        ensures
            // C11: run() never returns Ok without having read the stop flag as raised
            r is Ok ==> w_flag_loaded(old(self).stop_flag(), true),
            // ... and it starts by LOWERING the flag: a stop request left over from an earlier run does not end this one
            // before its first iteration (only a stop issued after run() has begun counts)
            w_flag_stored(old(self).stop_flag(), false),
//@ loop 1
        invariant
            forall|d: &mut Data| #[trigger] call_requires(cb, (d,)),
            self.stop_flag() == old(self).stop_flag(),
            w_flag_stored(old(self).stop_flag(), false),
            forall|d: &mut Data| #[trigger] call_ensures(cb, (d,), ()) ==> w_closure_ran(*d),
            // C11: every iteration that dispatched has also run the per-iteration closure (on the state the dispatch left)
            dispatched matches Some(d0) ==> w_closure_ran(d0),
        ensures
            // (stated on the loop so that it holds for either form of it: `while !stop {..}` or `loop { if stop { break } .. }`)
            w_flag_loaded(old(self).stop_flag(), true),
//@ alt
//@ rw R19 * <<self.signals.stop.store(>> => <<flag_store(&self.signals.stop, >>
//@ rw R19 * <<self.signals.stop.load(Ordering::Acquire)>> => <<flag_load_at(&self.signals.stop, Ordering::Acquire, Ghost(*data))>>
//@ before <<self.dispatch_events(timeout, data)?;>>
            // (alternative overlay for a body that calls the two phases of dispatch() itself: same contract -- a new iteration's
            //  event phase is entered only right after a stop check that said "not stopped")
            assert(w_flag_loaded_at(self.stop_flag(), false, *data));
//@ after <<self.dispatch_idles(data);>>
            proof { dispatched = Some(*data); }
//@ entry
        let ghost mut dispatched: Option<Data> = None;
//@ loop 1
        invariant
            forall|d: &mut Data| #[trigger] call_requires(cb, (d,)),
            self.stop_flag() == old(self).stop_flag(),
            w_flag_stored(old(self).stop_flag(), false),
            forall|d: &mut Data| #[trigger] call_ensures(cb, (d,), ()) ==> w_closure_ran(*d),
            // C11: every iteration that dispatched has also run the per-iteration closure (on the state the dispatch left)
            dispatched matches Some(d0) ==> w_closure_ran(d0),
        ensures
            // (stated on the loop so that it holds for either form of it: `while !stop {..}` or `loop { if stop { break } .. }`)
            w_flag_loaded(old(self).stop_flag(), true),
//@ enditem
//@ close

impl<'l, Data> EventLoop<'l, Data> {
//@ slice src/loop_logic.rs / impl EventLoop<'l, Data> / fn block_on :: after <<let mut context = Context::from_waker(&waker);>> props=C11,C13 name=EventLoop::block_on::loop
//@ rw R19 * <<self.signals.stop.store(>> => <<flag_store(&self.signals.stop, >>
//@ rw R19 * <<self.signals.stop.load(Ordering::Acquire)>> => <<flag_load_at(&self.signals.stop, Ordering::Acquire, Ghost(*data))>>
//@ before <<cb(data);>>
            // C13/C11: in block_on too the idle phase runs after the event phase and before the per-iteration closure
            assert(self.idles_done());
//@ before <<self.dispatch_events(None, data)?;>>
            // C11: an iteration is entered only right after a stop check that said "not stopped" (no per-iteration closure in between)
            assert(w_flag_loaded_at(self.stop_flag(), false, *data));
//@ rw R19 * <<self.signals.future_ready.store(>> => <<flag_store(&self.signals.future_ready, >>
//@ rw R19 * <<self.signals.future_ready.swap(>> => <<flag_swap(&self.signals.future_ready, >>
//@ rw R21 1 <<future.as_mut().poll(&mut context)>> => <<poll_pinned(&mut *future, &mut context)>>
//@ rw R21 1 <<if let Poll::Ready(result) =>> => <<if let std::task::Poll::Ready(result) =>>
//@ sig
    /// S1 slice of EventLoop::block_on: everything after the construction of the waker and its Context (nested `impl Wake`,
    /// `pin_mut!`, `Waker::from(Arc<..>)` are outside what Verus accepts). Free variables `future` (pinned to the stack in
    /// the real code: R21), `context`, `data`, `cb` become parameters; R19: atomics through identity stand-ins.
    #[verifier::exec_allows_no_decreases_clause]
    fn block_on_loop<R, Fut: std::future::Future<Output = R>, C: FnMut(&mut Data)>(&mut self, future: &mut Fut, mut context: std::task::Context<'_>, data: &mut Data, mut cb: C) -> (r: crate::Result<Option<R>>)
//@ spec
        requires
            forall|d: &mut Data| #[trigger] call_requires(cb, (d,)),
            forall|d: &mut Data| #[trigger] call_ensures(cb, (d,), ()) ==> w_closure_ran(*d),
            // C11 (may-call side): the future may be polled ONLY by an iteration whose swap found the ready flag set -- the
            // swap clears it BEFORE the poll, so a wake that arrives while the future is being polled sets it again and
            // is seen by the next iteration (never overwritten)
            may_poll_future() <==> w_flag_swapped(old(self).ready_flag(), false, true),
        ensures
            // C11: polled initially: the ready flag is raised before the first iteration; the stop flag is lowered first
            w_flag_stored(old(self).ready_flag(), true),
            w_flag_stored(old(self).stop_flag(), false),
            // Some(v) exactly from a poll that returned Ready(v); None only after the stop flag was read as raised
            r matches Ok(Some(v)) ==> w_future_ready(v),
            r matches Ok(None) ==> w_flag_loaded(old(self).stop_flag(), true),
//@ after <<self.dispatch_idles(data);>>
            proof { dispatched = Some(*data); }
//@ entry
        let ghost mut dispatched: Option<Data> = None;
//@ loop 1
        invariant_except_break
            output is None,
        invariant
            forall|d: &mut Data| #[trigger] call_requires(cb, (d,)),
            forall|d: &mut Data| #[trigger] call_ensures(cb, (d,), ()) ==> w_closure_ran(*d),
            // every iteration that dispatched has also run the per-iteration closure
            dispatched matches Some(d0) ==> w_closure_ran(d0),
            self.stop_flag() == old(self).stop_flag(), self.ready_flag() == old(self).ready_flag(),
            may_poll_future() <==> w_flag_swapped(old(self).ready_flag(), false, true),
            w_flag_stored(old(self).ready_flag(), true), w_flag_stored(old(self).stop_flag(), false),
        ensures
            output matches Some(v) ==> w_future_ready(v),
            output is None ==> w_flag_loaded(old(self).stop_flag(), true),
//@ endslice
}

impl<'l, Data> EventLoop<'l, Data> {
//@ slice src/loop_logic.rs / impl EventLoop<'l, Data> / fn get_signal :: body props=C11 name=EventLoop::get_signal
//@ rw R10 1 <<self.handle.inner.poll.borrow()>> => <<poll>>
//@ sig
    /// S1 slice: the whole body of EventLoop::get_signal; rule R10: the borrow of the loop's Poll cell becomes `poll`.
    fn get_signal_body(&self, poll: &Poll) -> (r: LoopSignal)
//@ spec
        ensures
            // C11: stop() raises the very flag run()/block_on() test, wakeup() notifies the poller the loop's Poll waits on
            r.sig() == self.sig(),
            r.note().pl() == poll.pl(),
//@ endslice
}
impl LoopSignal {
    pub closed spec fn ready_flag(&self) -> &AtomicBool { &self.signal.future_ready }
//@ slice src/loop_logic.rs / impl EventLoop<'l, Data> / fn block_on :: stmts <<self.0.signal.future_ready.store(>>#1/2 .. <<self.0.notifier.notify().ok();>>#1/2 props=C11 name=EventLoop::block_on::EventLoopWaker::wake
//@ rw R16 * <<self.0.notifier>> => <<slf.notifier>>
//@ rw R19 * <<self.0.signal.future_ready.store(>> => <<flag_store(&slf.signal.future_ready, >>
//@ sig
    /// S1 slice of EventLoop::block_on: the body of the nested `<EventLoopWaker as Wake>::wake` (what waking the blocked
    /// future's waker does, from any thread). R16: the receiver `self: Arc<EventLoopWaker>` -- a newtype around LoopSignal
    /// declared inside the function -- becomes `slf: &LoopSignal` (`self.0.` is `slf.`); R19 as above.
    fn block_on_waker_wake(slf: &LoopSignal)
//@ spec
        ensures
            // C11: a wake raises the ready flag (so the next iteration polls the future) and notifies the poller (so a wait
            // in progress -- or the next one -- returns)
            w_flag_stored(slf.ready_flag(), true), slf.note().w_notified(),
//@ endslice
//@ slice src/loop_logic.rs / impl EventLoop<'l, Data> / fn block_on :: stmts <<self.0.signal.future_ready.store(>>#2/2 .. <<self.0.notifier.notify().ok();>>#2/2 props=C11 name=EventLoop::block_on::EventLoopWaker::wake_by_ref
//@ rw R16 * <<self.0.notifier>> => <<slf.notifier>>
//@ rw R19 * <<self.0.signal.future_ready.store(>> => <<flag_store(&slf.signal.future_ready, >>
//@ sig
    /// S1 slice: the body of the nested `<EventLoopWaker as Wake>::wake_by_ref`, as above.
    fn block_on_waker_wake_by_ref(slf: &LoopSignal)
//@ spec
        ensures
            w_flag_stored(slf.ready_flag(), true), slf.note().w_notified(),
//@ endslice
}
