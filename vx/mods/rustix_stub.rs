//@ region prelude_rustix
/// Stand-in for the parts of the `rustix` crate calloop's eventfd ping touches (rule D5); every contract is ASSUMED.
pub mod rustix {
    pub mod event {
        use vstd::prelude::*;
        #[derive(Clone, Copy)]
        pub struct EventfdFlags { pub bits: u32 }
        impl EventfdFlags {
            pub const CLOEXEC: EventfdFlags = EventfdFlags { bits: 0x80000 };
            pub const NONBLOCK: EventfdFlags = EventfdFlags { bits: 0x800 };
        }
        impl vstd::std_specs::ops::BitOrSpecImpl for EventfdFlags {
            open spec fn obeys_bitor_spec() -> bool { true }
            open spec fn bitor_req(self, rhs: EventfdFlags) -> bool { true }
            open spec fn bitor_spec(self, rhs: EventfdFlags) -> EventfdFlags { EventfdFlags { bits: self.bits | rhs.bits } }
        }
        impl std::ops::BitOr for EventfdFlags {
            type Output = EventfdFlags;
            #[verifier::external_body]
            fn bitor(self, rhs: EventfdFlags) -> (r: EventfdFlags) { unimplemented!() }
        }
        /// the counter an eventfd was created with / the flags it was created with (ghost)
        pub uninterp spec fn evfd_initval(fd: int) -> u32;
        pub uninterp spec fn evfd_flags(fd: int) -> EventfdFlags;
        /// ASSUMED: creates a fresh eventfd object with the given initial counter and flags
        #[verifier::external_body]
        pub fn eventfd(initval: u32, flags: EventfdFlags) -> (r: Result<std::os::fd::OwnedFd, crate::rustix::io::Errno>)
            ensures r matches Ok(fd) ==> evfd_initval(crate::ext::fd_raw(&fd)) == initval && evfd_flags(crate::ext::fd_raw(&fd)) == flags,
        { unimplemented!() }
    }
    pub mod io {
        use vstd::prelude::*;
        use crate::ext::fd_raw;
        #[derive(Clone, Copy, PartialEq, Eq, Debug)]
        pub struct Errno { pub raw: i32 }
        impl vstd::std_specs::cmp::PartialEqSpecImpl for Errno {
            open spec fn obeys_eq_spec() -> bool { true }
            open spec fn eq_spec(&self, other: &Errno) -> bool { *self == *other }
        }
        impl Errno { pub const AGAIN: Errno = Errno { raw: 11 }; }
        impl vstd::std_specs::convert::FromSpecImpl<Errno> for std::io::Error {
            open spec fn obeys_from_spec() -> bool { false }
            uninterp spec fn from_spec(e: Errno) -> std::io::Error;
        }
        impl From<Errno> for std::io::Error {
            #[verifier::external_body]
            fn from(e: Errno) -> std::io::Error { unimplemented!() }
        }
        // the eventfd counter lives in the kernel (behind the descriptor); what contracts can say (DESIGN 2.12):
        /// may-call side: write(fd, buf) REQUIRES it
        pub uninterp spec fn may_write(fd: int, buf: Seq<u8>) -> bool;
        /// must-call side: write(fd, buf) has been called (monotone witness) / returned EAGAIN
        pub uninterp spec fn w_write_called(fd: int, buf: Seq<u8>) -> bool;
        #[verifier::external_body]
        pub fn write<Fd: std::os::fd::AsFd>(fd: Fd, buf: &[u8]) -> (r: Result<usize, Errno>)
            requires may_write(fd_raw(&fd), buf@),
            ensures w_write_called(fd_raw(&fd), buf@),
        { unimplemented!() }
        /// must-call side / result witness: read(fd, ..) has returned Ok(n) and left `data` in the first n bytes of the buffer
        pub uninterp spec fn w_read_returned(fd: int, data: Seq<u8>) -> bool;
        #[verifier::external_body]
        pub fn read<Fd: std::os::fd::AsFd>(fd: Fd, buf: &mut [u8]) -> (r: Result<usize, Errno>)
            ensures final(buf)@.len() == old(buf)@.len(),
                    r matches Ok(n) ==> n <= old(buf)@.len() && w_read_returned(fd_raw(&fd), final(buf)@.take(n as int)),
        { unimplemented!() }
    }
    pub mod fs {
        use vstd::prelude::*;
        use crate::ext::fd_raw;
        use crate::rustix::io::Errno;
        /// file status flags as a bit set (stand-in for the bitflags type rustix::fs::OFlags)
        #[derive(Clone, Copy, PartialEq, Eq)]
        pub struct OFlags { pub bits: u32 }
        impl vstd::std_specs::cmp::PartialEqSpecImpl for OFlags {
            open spec fn obeys_eq_spec() -> bool { true }
            open spec fn eq_spec(&self, other: &OFlags) -> bool { *self == *other }
        }
        impl OFlags {
            pub const NONBLOCK: OFlags = OFlags { bits: 0x800 };
            pub open spec fn has(self, o: OFlags) -> bool { (self.bits & o.bits) == o.bits }
            #[verifier::external_body]
            pub fn contains(&self, o: OFlags) -> (r: bool) ensures r == self.has(o), { unimplemented!() }
        }
        impl vstd::std_specs::ops::BitOrSpecImpl for OFlags {
            open spec fn obeys_bitor_spec() -> bool { true }
            open spec fn bitor_req(self, rhs: OFlags) -> bool { true }
            open spec fn bitor_spec(self, rhs: OFlags) -> OFlags { OFlags { bits: self.bits | rhs.bits } }
        }
        impl std::ops::BitOr for OFlags {
            type Output = OFlags;
            #[verifier::external_body]
            fn bitor(self, rhs: OFlags) -> (r: OFlags) { unimplemented!() }
        }
        impl vstd::std_specs::ops::BitAndSpecImpl for OFlags {
            open spec fn obeys_bitand_spec() -> bool { true }
            open spec fn bitand_req(self, rhs: OFlags) -> bool { true }
            open spec fn bitand_spec(self, rhs: OFlags) -> OFlags { OFlags { bits: self.bits & rhs.bits } }
        }
        impl std::ops::BitAnd for OFlags {
            type Output = OFlags;
            #[verifier::external_body]
            fn bitand(self, rhs: OFlags) -> (r: OFlags) { unimplemented!() }
        }
        // (not used by the unchanged tree; an edit may start to use it)
        impl vstd::std_specs::ops::BitXorSpecImpl for OFlags {
            open spec fn obeys_bitxor_spec() -> bool { true }
            open spec fn bitxor_req(self, rhs: OFlags) -> bool { true }
            open spec fn bitxor_spec(self, rhs: OFlags) -> OFlags { OFlags { bits: self.bits ^ rhs.bits } }
        }
        impl std::ops::BitXor for OFlags {
            type Output = OFlags;
            #[verifier::external_body]
            fn bitxor(self, rhs: OFlags) -> (r: OFlags) { unimplemented!() }
        }
        impl vstd::std_specs::ops::NotSpecImpl for OFlags {
            open spec fn obeys_not_spec() -> bool { true }
            open spec fn not_req(self) -> bool { true }
            open spec fn not_spec(self) -> OFlags { OFlags { bits: !self.bits } }
        }
        impl std::ops::Not for OFlags {
            type Output = OFlags;
            #[verifier::external_body]
            fn not(self) -> (r: OFlags) { unimplemented!() }
        }
        /// the status flags of the open file behind fd, as fcntl(F_GETFL) reports them (ghost; kernel state)
        pub uninterp spec fn flags_of(fd: int) -> OFlags;
        pub uninterp spec fn may_setfl(fd: int, flags: OFlags) -> bool;
        pub uninterp spec fn w_setfl(fd: int, flags: OFlags) -> bool;
        #[verifier::external_body]
        pub fn fcntl_getfl<Fd: std::os::fd::AsFd>(fd: Fd) -> (r: Result<OFlags, Errno>)
            ensures r matches Ok(f) ==> f == flags_of(fd_raw(&fd)),
        { unimplemented!() }
        #[verifier::external_body]
        pub fn fcntl_setfl<Fd: std::os::fd::AsFd>(fd: Fd, flags: OFlags) -> (r: Result<(), Errno>)
            requires may_setfl(fd_raw(&fd), flags),
            ensures r is Ok ==> w_setfl(fd_raw(&fd), flags),
        { unimplemented!() }
    }
}
