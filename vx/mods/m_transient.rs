pub mod transient {
use vstd::prelude::*;
//@ include transient_body
} // mod transient
