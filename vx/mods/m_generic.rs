pub mod generic {
use vstd::prelude::*;
use polling::Poller;
use std::{borrow, marker::PhantomData, ops, panic::AssertUnwindSafe, sync::Arc};
use std::os::unix::io::{AsFd, AsRawFd, BorrowedFd};
use crate::polling;
use crate::{EventSource, Interest, Mode, Poll, PostAction, Readiness, Token, TokenFactory};
//@ include generic_body
} // mod generic
