//@ item src/sources/transient.rs / struct TransientSource props=C18
//@ enditem
//@ item src/sources/transient.rs / enum TransientSourceState props=C18
//@ rw R6 1 <<enum TransientSourceState<T> {>> => <<pub enum TransientSourceState<T> {>>
//@ enditem
//@ open src/sources/transient.rs / impl Default for TransientSourceState<T>
//@ item src/sources/transient.rs / impl Default for TransientSourceState<T> / fn default props=C18 ret=r
//@ spec
        ensures r is None,
//@ enditem
//@ close

//@ region transient_specs props=C18
/// `c` may be dropped: ghost stand-in for "`c` is not registered" usable where `T` has no EventSource bound
/// (replace_state); tied to `!c.registered()` by the definitional axiom below.
pub uninterp spec fn droppable<T>(c: T) -> bool;
#[verifier::external_body]
pub broadcast proof fn axiom_droppable<T: crate::EventSource>(c: T)
    ensures #[trigger] droppable(c) <==> !c.registered(),
{}
impl<T: crate::EventSource> vstd::std_specs::convert::FromSpecImpl<T> for TransientSource<T> {
    open spec fn obeys_from_spec() -> bool { false }
    open spec fn from_spec(source: T) -> TransientSource<T> { arbitrary() }
}
impl<T> TransientSource<T> {
    pub closed spec fn st(&self) -> TransientSourceState<T> { self.state }
}
impl<T> TransientSourceState<T> {
    /// The state invariant `inv` below, said with `droppable` -- usable where `T` has no EventSource bound (remove,
    /// replace): every child the state holds is registered exactly when `inv` says so.
    pub open spec fn inv_d(self, parent_reg: bool) -> bool {
        match self {
            TransientSourceState::Keep(c) => droppable(c) == !parent_reg,
            TransientSourceState::Register(c) => droppable(c),
            TransientSourceState::Disable(c) => droppable(c) == !parent_reg,
            TransientSourceState::Remove(c) => droppable(c) == !parent_reg,
            TransientSourceState::Replace { new, old } => droppable(new) && droppable(old) == !parent_reg,
            TransientSourceState::None => true,
        }
    }
}
impl<T: crate::EventSource> TransientSourceState<T> {
    /// State invariant, parameterised by whether the wrapper itself is currently registered by its parent:
    /// the wrapped child is registered exactly when it is the current, kept child of a registered parent.
    pub open spec fn inv(self, parent_reg: bool) -> bool {
        match self {
            TransientSourceState::Keep(c) => c.wf() && c.registered() == parent_reg,
            TransientSourceState::Register(c) => c.wf() && !c.registered(),
            TransientSourceState::Disable(c) => c.wf() && c.registered() == parent_reg,
            TransientSourceState::Remove(c) => c.wf() && c.registered() == parent_reg,
            TransientSourceState::Replace { new, old } => new.wf() && !new.registered() && old.wf() && old.registered() == parent_reg,
            TransientSourceState::None => true,
        }
    }
}
//@ endregion

//@ open src/sources/transient.rs / impl TransientSourceState<T>
//@ item src/sources/transient.rs / impl TransientSourceState<T> / fn replace_state props=C18
//@ spec
        requires
            match *old(self) {
                TransientSourceState::Keep(s) => call_requires(replacer, (s,)),
                TransientSourceState::Register(s) => call_requires(replacer, (s,)),
                TransientSourceState::Remove(s) => call_requires(replacer, (s,)),
                TransientSourceState::Disable(s) => call_requires(replacer, (s,)),
                // the old source of a Replace is dropped here: it must have been unregistered before
                TransientSourceState::Replace { new, old } => call_requires(replacer, (new,)) && droppable(old),
                TransientSourceState::None => true,
            },
        ensures
            match *old(self) {
                TransientSourceState::Keep(s) => call_ensures(replacer, (s,), *final(self)),
                TransientSourceState::Register(s) => call_ensures(replacer, (s,), *final(self)),
                TransientSourceState::Remove(s) => call_ensures(replacer, (s,), *final(self)),
                TransientSourceState::Disable(s) => call_ensures(replacer, (s,), *final(self)),
                // on Replace the replacer sees the NEW source; `old` is dropped by this call
                TransientSourceState::Replace { new, old } => call_ensures(replacer, (new,), *final(self)),
                TransientSourceState::None => *final(self) is None,
            },
//@ enditem
//@ close

//@ open src/sources/transient.rs / impl TransientSource<T>
//@ item src/sources/transient.rs / impl TransientSource<T> / fn map props=C18 ret=r splitarms
//@ spec
        requires forall|s: &mut T| #[trigger] call_requires(f, (s,)),
        ensures (old(self).st() is Remove || old(self).st() is None) <==> r is None,
//@ enditem
//@ item src/sources/transient.rs / impl TransientSource<T> / fn is_none props=C18 ret=r
//@ spec
        ensures r == (self.st() is None),
//@ enditem
//@ item src/sources/transient.rs / impl TransientSource<T> / fn remove props=C18,C16
//@ rw R1 * <<replace_state(TransientSourceState::Keep)>> => <<replace_state(|x: T| -> (r: TransientSourceState<T>) ensures r == TransientSourceState::Keep(x) { TransientSourceState::Keep(x) })>>
//@ rw R1 * <<replace_state(TransientSourceState::Register)>> => <<replace_state(|x: T| -> (r: TransientSourceState<T>) ensures r == TransientSourceState::Register(x) { TransientSourceState::Register(x) })>>
//@ rw R1 * <<replace_state(TransientSourceState::Disable)>> => <<replace_state(|x: T| -> (r: TransientSourceState<T>) ensures r == TransientSourceState::Disable(x) { TransientSourceState::Disable(x) })>>
//@ rw R1 * <<replace_state(TransientSourceState::Remove)>> => <<replace_state(|x: T| -> (r: TransientSourceState<T>) ensures r == TransientSourceState::Remove(x) { TransientSourceState::Remove(x) })>>
//@ spec
        // the documented protocol (C18: "a re-registration is requested after each change"): no second change while a
        // replacement is still pending -- it would drop the old, still registered source
        requires old(self).st() matches TransientSourceState::Replace { new, old } ==> droppable(old),
        ensures
            // the wrapped source is no longer reachable (map() answers None) ...
            final(self).st() is Remove || final(self).st() is None,
            // ... a child that may be registered is KEPT until a re-registration has unregistered it, never dropped here
            match old(self).st() {
                TransientSourceState::Keep(c) => final(self).st() == TransientSourceState::Remove(c),
                TransientSourceState::Disable(c) => final(self).st() == TransientSourceState::Remove(c),
                TransientSourceState::Remove(c) => final(self).st() == TransientSourceState::Remove(c),
                _ => true,
            },
            // C18: whatever state the wrapper is in and whether or not its parent has it registered, the request keeps the
            // state in step with what is registered: the child it marks for removal is one that IS registered while the
            // parent is (a child that still waits for its first registration must not be "unregistered" later)
            forall|p: bool| #[trigger] old(self).st().inv_d(p) ==> final(self).st().inv_d(p),
//@ enditem
//@ item src/sources/transient.rs / impl TransientSource<T> / fn replace props=C18,C16
//@ closure <<|old| TransientSourceState::Replace { new, old }>>
-> (r: TransientSourceState<T>) ensures r == (TransientSourceState::Replace { new, old })
//@ spec
        requires
            // (protocol, as for remove) no second change while a replacement is pending
            old(self).st() matches TransientSourceState::Replace { new: n0, old: o0 } ==> droppable(o0),
            // the source handed in is not registered anywhere
            droppable(new),
        ensures
            // a child that may be registered is kept (as `old`) until a re-registration has unregistered it; the new source
            // waits for its first registration
            match old(self).st() {
                TransientSourceState::Keep(c) => final(self).st() == (TransientSourceState::Replace { new, old: c }),
                TransientSourceState::Disable(c) => final(self).st() == (TransientSourceState::Replace { new, old: c }),
                TransientSourceState::Remove(c) => final(self).st() == (TransientSourceState::Replace { new, old: c }),
                TransientSourceState::None => final(self).st() is None,
                _ => (final(self).st() matches TransientSourceState::Replace { new: n, old: o } && n == new)
                        || final(self).st() == TransientSourceState::Register(new),
            },
            forall|p: bool| #[trigger] old(self).st().inv_d(p) ==> final(self).st().inv_d(p),
//@ enditem
//@ close

//@ open src/sources/transient.rs / impl From<T> for TransientSource<T>
//@ item src/sources/transient.rs / impl From<T> for TransientSource<T> / fn from props=C18 ret=r
//@ spec
        ensures r.st() == TransientSourceState::Register(source),
//@ enditem
//@ close

//@ open src/sources/transient.rs / impl crate::EventSource for TransientSource<T>
//@ item src/sources/transient.rs / impl crate::EventSource for TransientSource<T> / type Event props=C18
//@ enditem
//@ item src/sources/transient.rs / impl crate::EventSource for TransientSource<T> / type Metadata props=C18
//@ enditem
//@ item src/sources/transient.rs / impl crate::EventSource for TransientSource<T> / type Ret props=C18
//@ enditem
//@ item src/sources/transient.rs / impl crate::EventSource for TransientSource<T> / type Error props=C18
//@ enditem
//@ region transient_protocol props=C18
    open spec fn wf(&self) -> bool { true }
    open spec fn registered(&self) -> bool { self.st() matches TransientSourceState::Keep(c) && c.registered() }
    // The parent's own register/unregister calls alternate: that alternation is the `parent_reg` argument of inv.
    open spec fn register_req(&self) -> bool { crate::sources::obeys_protocol::<T>() && self.st().inv(false) }
    open spec fn register_ens(o: &Self, n: &Self, ok: bool) -> bool {
        &&& ok ==> n.st().inv(true) && (n.st() is Keep || n.st() is None)
        &&& !ok ==> n.st().inv(false)
    }
    open spec fn reregister_req(&self) -> bool { crate::sources::obeys_protocol::<T>() && self.st().inv(true) }
    open spec fn reregister_ens(o: &Self, n: &Self, ok: bool) -> bool {
        // (the Disable start state is stated separately on the impl fn: known finding F6a. A failing registration of the NEW
        //  child of a Replace used to be a hole in this contract; it hid defect F15 -- the old child, already unregistered,
        //  stayed in the state and was unregistered again by the retry -- and is now part of it)
        &&& (o.st() is Disable || n.st().inv(true))
        // after a successful re-registration no change is pending: the child is kept (registered), gone, or disabled
        &&& ok ==> (n.st() is Keep || n.st() is None || n.st() is Disable)
        &&& (ok && o.st() is Disable) ==> n.st() is Disable
    }
    open spec fn unregister_req(&self) -> bool { crate::sources::obeys_protocol::<T>() && self.st().inv(true) }
    open spec fn unregister_ens(o: &Self, n: &Self, ok: bool) -> bool {
        // (a child waiting for its first registration -- state Register, or the `new` of a Replace -- is NOT unregistered:
        //  defects F6b/F6d, repaired; the child preconditions at the call sites of this function are what failed)
        &&& ok ==> n.st().inv(false)
        &&& !ok ==> n.st().inv(true)
        &&& ok ==> (n.st() is Keep || n.st() is Register || n.st() is Disable || n.st() is None)
    }
    open spec fn process_req(&self) -> bool { crate::sources::obeys_protocol::<T>() && self.st().inv(true) }
    /// no event is forwarded from anything but the current, kept child
    open spec fn may_call(&self, readiness: crate::Readiness, token: crate::Token, e: T::Event) -> bool {
        self.st() matches TransientSourceState::Keep(c) && c.may_call(readiness, token, e)
    }
    open spec fn cb_req<CbF: FnMut(T::Event, &mut T::Metadata) -> T::Ret>(&self, readiness: crate::Readiness, token: crate::Token, callback: CbF) -> bool {
        self.st() matches TransientSourceState::Keep(c) ==> c.cb_req(readiness, token, callback)
    }
    open spec fn process_ens(o: &Self, n: &Self, readiness: crate::Readiness, token: crate::Token, r: Result<crate::PostAction, T::Error>) -> bool {
        &&& n.st().inv(true)
        // TransientSource itself only ever returns Continue or Reregister
        &&& r is Ok ==> (r->Ok_0 is Continue || r->Ok_0 is Reregister)
        // processing events on anything but a kept child (in particular on an empty wrapper) is a no-op
        &&& !(o.st() is Keep) ==> (n.st() == o.st() && r is Ok && r->Ok_0 is Continue)
        // a child asking for Disable / Remove is parked in the matching state and a re-registration is requested
        &&& (r is Ok && r->Ok_0 is Continue) ==> n.st() is Keep || !(o.st() is Keep)
        // the kept child -- registered at this point -- never leaves the wrapper here, whatever its processing answered
        // (it would be dropped while registered); an error of the child changes nothing about who is kept
        &&& o.st() is Keep ==> (n.st() is Keep || n.st() is Disable || n.st() is Remove)
        &&& (r is Err && o.st() is Keep) ==> n.st() is Keep
    }
//@ endregion
//@ item src/sources/transient.rs / impl crate::EventSource for TransientSource<T> / fn process_events props=C18,C01 ret=r splitarms
//@ rw R8 1 <<process_events<F>>> => <<process_events<CbF>>>
//@ rw R8 1 <<callback: F,>> => <<callback: CbF,>>
//@ rw R8 1 <<F: FnMut(Self::Event>> => <<CbF: FnMut(Self::Event>>
//@ rw R1 * <<replace_state(TransientSourceState::Keep)>> => <<replace_state(|x: T| -> (r: TransientSourceState<T>) ensures r == TransientSourceState::Keep(x) { TransientSourceState::Keep(x) })>>
//@ rw R1 * <<replace_state(TransientSourceState::Register)>> => <<replace_state(|x: T| -> (r: TransientSourceState<T>) ensures r == TransientSourceState::Register(x) { TransientSourceState::Register(x) })>>
//@ rw R1 * <<replace_state(TransientSourceState::Disable)>> => <<replace_state(|x: T| -> (r: TransientSourceState<T>) ensures r == TransientSourceState::Disable(x) { TransientSourceState::Disable(x) })>>
//@ rw R1 * <<replace_state(TransientSourceState::Remove)>> => <<replace_state(|x: T| -> (r: TransientSourceState<T>) ensures r == TransientSourceState::Remove(x) { TransientSourceState::Remove(x) })>>
//@ spec
        ensures
            // C18: what happens to a kept child is dictated by what ITS process_events returned (for an arbitrary child type
            // `T::process_ens` is uninterpreted: the fact can only come from the real call): Continue / Reregister keep it and
            // are passed on; Disable / Remove park it in the matching state and ask the parent for a re-registration; an error
            // is propagated
            old(self).st() matches TransientSourceState::Keep(c0) ==> exists|cn: T, cr: Result<crate::PostAction, T::Error>|
                #[trigger] T::process_ens(&c0, &cn, readiness, token, cr) && (match cr {
                    Ok(crate::PostAction::Continue) => final(self).st() == TransientSourceState::Keep(cn) && r matches Ok(crate::PostAction::Continue),
                    Ok(crate::PostAction::Reregister) => final(self).st() == TransientSourceState::Keep(cn) && r matches Ok(crate::PostAction::Reregister),
                    Ok(crate::PostAction::Disable) => final(self).st() == TransientSourceState::Disable(cn) && r matches Ok(crate::PostAction::Reregister),
                    Ok(crate::PostAction::Remove) => final(self).st() == TransientSourceState::Remove(cn) && r matches Ok(crate::PostAction::Reregister),
                    Err(_) => r is Err,
                }),
//@ entry
        proof { broadcast use axiom_droppable; }
//@ enditem
//@ item src/sources/transient.rs / impl crate::EventSource for TransientSource<T> / fn register props=C18,C15,C16,C01,C07 ret=r splitarms
//@ rw R1 * <<replace_state(TransientSourceState::Keep)>> => <<replace_state(|x: T| -> (r: TransientSourceState<T>) ensures r == TransientSourceState::Keep(x) { TransientSourceState::Keep(x) })>>
//@ rw R1 * <<replace_state(TransientSourceState::Register)>> => <<replace_state(|x: T| -> (r: TransientSourceState<T>) ensures r == TransientSourceState::Register(x) { TransientSourceState::Register(x) })>>
//@ rw R1 * <<replace_state(TransientSourceState::Disable)>> => <<replace_state(|x: T| -> (r: TransientSourceState<T>) ensures r == TransientSourceState::Disable(x) { TransientSourceState::Disable(x) })>>
//@ rw R1 * <<replace_state(TransientSourceState::Remove)>> => <<replace_state(|x: T| -> (r: TransientSourceState<T>) ensures r == TransientSourceState::Remove(x) { TransientSourceState::Remove(x) })>>
//@ rw R2 * <<|_| TransientSourceState::None>> => <<|_x: T| -> (r: TransientSourceState<T>) requires droppable(_x) ensures r is None { TransientSourceState::None }>>
//@ entry
        proof { broadcast use axiom_droppable; }
//@ enditem
//@ item src/sources/transient.rs / impl crate::EventSource for TransientSource<T> / fn reregister props=C18,C15,C16,C01,C07 ret=r splitarms
//@ spec
        ensures
            // F6a (known finding): a disabled child is unregistered here but the state does not record it
            old(self).st() is Disable ==> final(self).st().inv(true), /*@props C18*/
//@ rw R1 * <<replace_state(TransientSourceState::Keep)>> => <<replace_state(|x: T| -> (r: TransientSourceState<T>) ensures r == TransientSourceState::Keep(x) { TransientSourceState::Keep(x) })>>
//@ rw R1 * <<replace_state(TransientSourceState::Register)>> => <<replace_state(|x: T| -> (r: TransientSourceState<T>) ensures r == TransientSourceState::Register(x) { TransientSourceState::Register(x) })>>
//@ rw R1 * <<replace_state(TransientSourceState::Disable)>> => <<replace_state(|x: T| -> (r: TransientSourceState<T>) ensures r == TransientSourceState::Disable(x) { TransientSourceState::Disable(x) })>>
//@ rw R1 * <<replace_state(TransientSourceState::Remove)>> => <<replace_state(|x: T| -> (r: TransientSourceState<T>) ensures r == TransientSourceState::Remove(x) { TransientSourceState::Remove(x) })>>
//@ rw R2 * <<|_| TransientSourceState::None>> => <<|_x: T| -> (r: TransientSourceState<T>) requires droppable(_x) ensures r is None { TransientSourceState::None }>>
//@ entry
        proof { broadcast use axiom_droppable; }
//@ enditem
//@ item src/sources/transient.rs / impl crate::EventSource for TransientSource<T> / fn unregister props=C18,C16,C07 ret=r splitarms
//@ rw R1 * <<replace_state(TransientSourceState::Keep)>> => <<replace_state(|x: T| -> (r: TransientSourceState<T>) ensures r == TransientSourceState::Keep(x) { TransientSourceState::Keep(x) })>>
//@ rw R1 * <<replace_state(TransientSourceState::Register)>> => <<replace_state(|x: T| -> (r: TransientSourceState<T>) ensures r == TransientSourceState::Register(x) { TransientSourceState::Register(x) })>>
//@ rw R1 * <<replace_state(TransientSourceState::Disable)>> => <<replace_state(|x: T| -> (r: TransientSourceState<T>) ensures r == TransientSourceState::Disable(x) { TransientSourceState::Disable(x) })>>
//@ rw R1 * <<replace_state(TransientSourceState::Remove)>> => <<replace_state(|x: T| -> (r: TransientSourceState<T>) ensures r == TransientSourceState::Remove(x) { TransientSourceState::Remove(x) })>>
//@ rw R2 * <<|_| TransientSourceState::None>> => <<|_x: T| -> (r: TransientSourceState<T>) requires droppable(_x) ensures r is None { TransientSourceState::None }>>
//@ entry
        proof { broadcast use axiom_droppable; }
//@ enditem
//@ close

//@ region transient_lemmas props=C18
/// remove()/replace() keep the state invariant when a re-registration has happened since the last change
/// (the documented protocol): i.e. from the settled states Keep / Disable-before-reregister / Remove / None.
pub proof fn lemma_remove_keeps_inv<T: crate::EventSource>(o: TransientSourceState<T>, n: TransientSourceState<T>, pr: bool)
    requires
        o.inv(pr),
        !(o is Register) && !(o is Replace),
        match o {
            TransientSourceState::Keep(c) => n == TransientSourceState::Remove(c),
            TransientSourceState::Register(c) => n == TransientSourceState::Remove(c),
            TransientSourceState::Disable(c) => n == TransientSourceState::Remove(c),
            TransientSourceState::Remove(c) => n == TransientSourceState::Remove(c),
            TransientSourceState::Replace { new, old } => n == TransientSourceState::Remove(new),
            TransientSourceState::None => n is None,
        },
    ensures n.inv(pr),
{}
pub proof fn lemma_replace_keeps_inv<T: crate::EventSource>(o: TransientSourceState<T>, n: TransientSourceState<T>, new: T, pr: bool)
    requires
        o.inv(pr), new.wf(), !new.registered(),
        !(o is Register) && !(o is Replace),
        match o {
            TransientSourceState::Keep(c) => n == (TransientSourceState::Replace { new, old: c }),
            TransientSourceState::Register(c) => n == (TransientSourceState::Replace { new, old: c }),
            TransientSourceState::Disable(c) => n == (TransientSourceState::Replace { new, old: c }),
            TransientSourceState::Remove(c) => n == (TransientSourceState::Replace { new, old: c }),
            TransientSourceState::Replace { new: n0, old: o0 } => n == (TransientSourceState::Replace { new, old: n0 }),
            TransientSourceState::None => n is None,
        },
    ensures n.inv(pr),
{}
/// From<T> starts in a state that satisfies the invariant for an unregistered parent and, for an unregistered
/// child, also for a registered one (it is registered at the next re-registration)
pub proof fn lemma_from_inv<T: crate::EventSource>(c: T, pr: bool)
    requires c.wf(), !c.registered(),
    ensures (TransientSourceState::Register(c)).inv(pr), (TransientSourceState::<T>::None).inv(pr),
{}
//@ endregion
