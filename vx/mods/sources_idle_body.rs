//@ item src/sources/mod.rs / struct Idle props=C13
//@ enditem
//@ open src/sources/mod.rs / trait CancellableIdle
//@ region cancellable_ghost props=C13
    /// the slot holds no callback any more (defined by the implementor)
    spec fn cancelled(&self) -> bool;
//@ endregion
//@ item src/sources/mod.rs / trait CancellableIdle / fn cancel props=C13
//@ spec
        ensures final(self).cancelled(),
//@ enditem
//@ close
//@ open src/sources/mod.rs / impl CancellableIdle for Option<F>
//@ region cancellable_impl_ghost props=C13
    open spec fn cancelled(&self) -> bool { *self is None }
//@ endregion
//@ item src/sources/mod.rs / impl CancellableIdle for Option<F> / fn cancel props=C13
//@ spec
        // cancel empties the shared slot: the idle callback can never run afterwards
        ensures *final(self) is None,
//@ enditem
//@ close
impl<'i> Idle<'i> {
//@ slice src/sources/mod.rs / impl Idle<'_> / fn cancel :: body props=C13 name=Idle::cancel
//@ rw R10 * <<self.callback.borrow_mut()>> => <<slot>>
//@ sig
/// S1 slice: the whole body of Idle::cancel. Rule R10: the borrow of the slot shared with the loop's idle queue becomes
/// the parameter `slot` (the by-value `self` is only used for that borrow).
fn idle_cancel_body(slot: &mut (dyn CancellableIdle + 'i))
//@ spec
    ensures
        // C13: the user's cancel handle empties the very slot the loop's idle queue holds: the callback cannot run afterwards
        final(slot).cancelled(),
//@ endslice
}

//@ open src/sources/mod.rs / trait IdleDispatcher
//@ region idle_ghost props=C13
    /// what dispatch needs to know about the stored callback (defined by the implementor)
    spec fn dispatch_req(&self) -> bool;
//@ endregion
//@ item src/sources/mod.rs / trait IdleDispatcher / fn dispatch props=C13
//@ spec
        requires old(self).dispatch_req(),
//@ enditem
//@ close
//@ open src/sources/mod.rs / impl IdleDispatcher<Data> for Option<F>
//@ region idle_impl_ghost props=C13
    open spec fn dispatch_req(&self) -> bool {
        match *self { Some(f) => forall|d: &mut Data| #[trigger] call_requires(f, (d,)), None => true }
    }
//@ endregion
//@ item src/sources/mod.rs / impl IdleDispatcher<Data> for Option<F> / fn dispatch props=C13
//@ spec
        ensures
            // an emptied (cancelled or already taken) slot stays empty and nothing is called
            *old(self) is None ==> *final(self) is None,
            *final(self) is Some <==> *old(self) is Some,
            // C13 (must-call side): a slot that holds a callback runs it -- an idle that was neither cancelled nor run yet is
            // never skipped
            *old(self) matches Some(f) ==> exists|d0: &mut Data| #[trigger] call_ensures(f, (d0,), ()),
//@ enditem
//@ close
