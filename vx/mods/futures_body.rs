//@ region futures_prelude props=C10
#[verifier::external_type_specification] #[verifier::external_body] #[verifier::reject_recursive_types(T)]
pub struct ExMutex<T: ?Sized>(Mutex<T>);
#[verifier::external_type_specification] #[verifier::external_body]
pub struct ExWaker(std::task::Waker);
//@ endregion
//@ item src/sources/futures.rs / struct Executor props=C10
//@ pre
#[verifier::reject_recursive_types(T)]
//@ enditem
//@ item src/sources/futures.rs / struct State props=C10
//@ pre
#[verifier::reject_recursive_types(T)]
//@ enditem
//@ item src/sources/futures.rs / struct Sender props=C10
//@ enditem
//@ item src/sources/futures.rs / enum Active props=C10
//@ enditem
//@ open src/sources/futures.rs / impl Active<T>
//@ item src/sources/futures.rs / impl Active<T> / fn is_finished props=C10 ret=r
//@ spec
        ensures r == (self is Finished),
//@ enditem
//@ close
//@ item src/sources/futures.rs / enum ExecutorError props=C10
//@ enditem
//@ item src/sources/futures.rs / struct Scheduler props=C10
//@ pre
#[verifier::reject_recursive_types(T)]
//@ enditem
//@ item src/sources/futures.rs / struct ExecutorDestroyed props=C10
//@ enditem

//@ item src/sources/futures.rs / impl Scheduler<T> / fn schedule / struct StoreOnDrop props=C10
//@ pre
#[verifier::reject_recursive_types(T)]
//@ enditem

impl<'a, T> StoreOnDrop<'a, T> {
//@ slice src/sources/futures.rs / impl Scheduler<T> / fn schedule / impl Drop for StoreOnDrop<'_, T> / fn drop :: body props=C10 name=StoreOnDrop::drop
//@ rw R10 * <<self.state.active_tasks.borrow_mut()>> => <<tasks_cell>>
//@ rw R21 * <<self.value.take()>> => <<slf.value.take()>>
//@ rw R27 1 <<active_tasks[self.index] = Active::Finished(value);>> => <<active_tasks.set(slf.index, Active::Finished(value));>>
//@ rw R21 * <<active_tasks.remove(self.index);>> => <<active_tasks.remove(slf.index);>>
//@ sig
    /// S1 slice: the whole body of `impl Drop for StoreOnDrop` (a type declared inside Scheduler::schedule: the guard the
    /// wrapping future holds; it runs when the task's future has produced its value or is dropped unfinished), as an ordinary
    /// function. R21: the receiver is `slf`; R10: the borrow of the task-table cell becomes `tasks_cell`; R27: the indexed
    /// assignment `table[key] = v` (slab's IndexMut, which Verus cannot model) becomes the stand-in `set(key, v)` with the
    /// same panic condition as precondition.
    fn store_on_drop_body(slf: &mut StoreOnDrop<'a, T>, tasks_cell: &mut Option<Slab<Active<T>>>)
//@ spec
        requires
            // the task's entry is in the table as long as the table exists (inserted by schedule::tail under this very key --
            // see Scheduler::schedule::head --, taken out only by this function or after it: cross-call history, assumed here)
            *old(tasks_cell) matches Some(tab) ==> tab@.dom().contains(old(slf).index),
        ensures
            match *old(tasks_cell) {
                // the executor is gone: nothing to store into (the value is dropped with the guard)
                None => *final(tasks_cell) is None,
                Some(tab) => match old(slf).value {
                    // C10 (result hand-over, exactly once): the finished future's value is stored under the task's OWN key,
                    // no other entry changes, and the guard no longer holds it
                    Some(v) => *final(tasks_cell) matches Some(t2) && t2@ == tab@.insert(old(slf).index, Active::Finished(v)) && final(slf).value is None,
                    // dropped before it finished: its entry leaves the table, no other entry changes
                    None => *final(tasks_cell) matches Some(t2) && t2@ == tab@.remove(old(slf).index),
                },
            },
            final(slf).index == old(slf).index,
//@ endslice
}

impl<T> Scheduler<T> {
//@ slice src/sources/futures.rs / impl Scheduler<T> / fn schedule :: stmts <<let mut active_guard = self.state.active_tasks.borrow_mut();>> .. <<let index =>> props=C10 name=Scheduler::schedule::head
//@ rw R10 * <<self.state.active_tasks.borrow_mut()>> => <<tasks_cell>>
//@ sig
    /// S1 slice of Scheduler::schedule: from taking the task table to choosing the key of the new task. R10: the borrow of
    /// the task-table cell becomes `tasks_cell`. Dropped: the nested item definitions before it, the construction of the
    /// wrapping future / schedule closure and the spawn (async blocks, async_task::Builder) between this range and the tail.
    fn schedule_head(&self, tasks_cell: &mut Option<Slab<Active<T>>>) -> (r: Result<usize, ExecutorDestroyed>)
//@ spec
        ensures
            // C10: once the executor is gone (its Drop took the table: see Executor::drop::take_table) schedule() refuses
            *old(tasks_cell) is None ==> r is Err,
            // otherwise the key announced to the wrapping future (where it will store its result) is the key the table
            // will give to the next insertion -- the one the tail of schedule() makes
            *old(tasks_cell) matches Some(tab) ==> r == Ok::<usize, ExecutorDestroyed>(tab.next_key()),
            *final(tasks_cell) == *old(tasks_cell),
//@ tail
        Ok(index)
//@ endslice

//@ slice src/sources/futures.rs / impl Scheduler<T> / fn schedule :: stmts <<active_tasks.insert(>> .. <<task.detach();>> props=C10 name=Scheduler::schedule::tail
//@ rw R10 1 <<drop(active_guard);>> => <<;>>
//@ sig
    /// S1 slice of Scheduler::schedule: its last four statements. `active_tasks` (the table borrowed through the guard),
    /// `runnable`, `task` become parameters; R10: the release of the guard is dropped.
    fn schedule_tail(active_tasks: &mut Slab<Active<T>>, runnable: Runnable<usize>, task: crate::async_task::Task<(), usize>)
//@ spec
        ensures
            // C10: the new task enters the table under the announced key, holding its own waker (what Executor::drop wakes),
            final(active_tasks)@ == old(active_tasks)@.insert(old(active_tasks).next_key(), Active::Future(runnable.spec_waker())),
            // and its runnable has been scheduled (first poll): a scheduled future is never left unpolled
            crate::async_task::w_scheduled(runnable),
//@ endslice
}

impl<T> Executor<T> {
//@ slice src/sources/futures.rs / impl Drop for Executor<T> / fn drop :: stmts <<let active_tasks = self.state.active_tasks.borrow_mut().take().unwrap();>> .. <<let active_tasks = self.state.active_tasks.borrow_mut().take().unwrap();>> props=C10 name=Executor::drop::take_table
//@ rw R10 * <<self.state.active_tasks.borrow_mut()>> => <<tasks_cell>>
//@ sig
    /// S1 slice of `impl Drop for Executor`: its first statement (R10: the task-table cell). Dropped: the loop that wakes
    /// every task (iteration over a Slab, catch_unwind).
    fn drop_take_table(&self, tasks_cell: &mut Option<Slab<Active<T>>>) -> (r: Slab<Active<T>>)
//@ spec
        requires *old(tasks_cell) is Some,
        ensures
            // C10: dropping the executor empties the cell: from now on schedule() returns ExecutorDestroyed (schedule::head)
            *final(tasks_cell) is None, Some(r) == *old(tasks_cell),
//@ tail
        active_tasks
//@ endslice

//@ slice src/sources/futures.rs / impl Drop for Executor<T> / fn drop :: after <<let active_tasks = self.state.active_tasks.borrow_mut().take().unwrap();>> props=C10 name=Executor::drop::wake_all_then_drain
//@ rw R20 1 <<for (_, task) in active_tasks>> => <<for task in lit: slab_into_values(active_tasks)>>
//@ rw R25 1 <<std::panic::catch_unwind(||>> => <<{>>
//@ rw R25 1 <<).ok();>> => <<; }>>
//@ sig
    /// S1 slice of `impl Drop for Executor`: everything after the table has been taken -- the loop that wakes every parked
    /// task and the loop that drops every queued runnable. `active_tasks` (the taken table) becomes a parameter. R20: the
    /// loop head over a Slab's `IntoIter` (pairs) becomes a loop over the Vec of its values; R25:
    /// `catch_unwind(|| E).ok();` becomes `{ E; }` (a panic of E is assumed away).
    #[verifier::exec_allows_no_decreases_clause]
    fn drop_wake_all_then_drain(&self, active_tasks: Slab<Active<T>>)
//@ spec
        requires
            // C10 (may-call side, "A only after B"): the queue may be drained only AFTER every parked task has been woken -- a
            // wake re-schedules the task's runnable into the queue, and a runnable that arrives after the drain is never
            // dropped (it keeps its future and the shared state alive: a leak, and a future that is not dropped with its
            // executor)
            may_recv(&self.state.incoming) <==> (forall|k: usize| #[trigger] active_tasks@.dom().contains(k) ==> (active_tasks@[k] matches Active::Future(w) ==> w_task_woken(w))),
        ensures
            // every parked task has been woken, and then the queue has been drained until it reported nothing more (so every
            // runnable -- and with it its future -- has been dropped here, on the loop thread)
            forall|k: usize| #[trigger] active_tasks@.dom().contains(k) ==> (active_tasks@[k] matches Active::Future(w) ==> w_task_woken(w)),
            w_empty(&self.state.incoming) || w_disconnected(&self.state.incoming),
//@ loop <<for>>
            invariant
                slab_values_of(active_tasks, lit.seq()),
                forall|i: int| 0 <= i < lit.index@ ==> (#[trigger] lit.seq()[i] matches Active::Future(w) ==> w_task_woken(w)),
//@ loop <<while>>
            invariant may_recv(&self.state.incoming),
            ensures w_empty(&self.state.incoming) || w_disconnected(&self.state.incoming),
//@ before <<while self.state.incoming.try_recv().is_ok() {}>>
        proof {
            // every value of the table is one of the values the loop has gone through
            assert forall|k: usize| #[trigger] active_tasks@.dom().contains(k) implies (active_tasks@[k] matches Active::Future(w) ==> w_task_woken(w)) by {
                lemma_slab_values(active_tasks, vals_of(active_tasks), k);
            }
        }
//@ alt
//@ loop <<while>>
            // (alternative overlay for a body WITHOUT the wake loop -- e.g. the table is just dropped: same contract, so
            // draining the queue before every parked task has been woken is reported instead of being undecided)
            invariant may_recv(&self.state.incoming),
            ensures w_empty(&self.state.incoming) || w_disconnected(&self.state.incoming),
//@ endslice
}

impl Sender {
//@ slice src/sources/futures.rs / impl Sender / fn send :: after <<if let Err(e) = self .sender .lock()>> props=C10 name=Sender::send::wake_step
//@ rw R19 * <<self.notified.swap(>> => <<atomic_swap(&self.notified, >>
//@ sig
    /// S1 slice of futures::Sender::send (called by wakers on any thread): the two statements AFTER the runnable has been
    /// put into the queue. Dropped: the enqueue itself (Mutex<mpsc::Sender>::lock().unwrap_or_else(..).send(..): std Mutex
    /// is outside Verus' reach) -- it precedes this range in the real text, which is what "enqueue first" means.
    /// Rule R19: the method call on the std atomic becomes a call of an identity stand-in that carries the witness.
    fn send_wake_step(&self)
//@ spec
        requires
            // C10 (may-call side): the eventfd may be written (only INCREMENT_PING) only by the caller whose swap found the
            // flag clear -- that is what makes redundant wake-ups impossible and, together with the executor clearing the
            // flag before it drains, lost ones too
            forall|f: int, c: u64| #[trigger] crate::sources::ping::eventfd::may_send(f, c) <==> (f == self.wake_up.raw() && c == 2 && w_swapped(&self.notified, true, false)),
            forall|f: int, b: Seq<u8>| #[trigger] crate::rustix::io::may_write(f, b) <==> (f == self.wake_up.raw() && b == crate::sources::ping::eventfd::ne_bytes(2)),
        ensures
            // C10 (must-call side): either somebody else had already set the flag (their wake-up is outstanding), or this
            // call has set it and has written the wake-up
            w_swapped(&self.notified, true, true) || (w_swapped(&self.notified, true, false) && crate::rustix::io::w_write_called(self.wake_up.raw(), crate::sources::ping::eventfd::ne_bytes(2))),
//@ endslice
}

impl<T> Executor<T> {
//@ slice src/sources/futures.rs / impl EventSource for Executor<T> / fn process_events :: closure 1 props=C10,C02,C12 name=Executor::process_events::drain_closure
//@ rw R19 * <<state.sender.notified.store(false, Ordering::SeqCst)>> => <<atomic_store(&state.sender.notified, false, Ordering::SeqCst)>>
//@ rw R10 * <<state.active_tasks.borrow_mut()>> => <<&mut *tasks_cell>>
//@ rw R14 1 <<for _ in 0..1024>> => <<for _i in lit: 0..1024>>
//@ sig
    /// S1 slice: the body of the closure Executor::process_events passes to its PingSource. Captured `state`, `callback`
    /// become parameters, the captured `mut clear_readiness` a local that is returned. R10: the borrow of the task-table
    /// cell (taken afresh in every iteration, released before the callback) becomes `tasks_cell`; R19: atomic store.
    fn exec_drain_closure<F: FnMut(T, &mut ())>(state: &State<T>, tasks_cell: &mut Option<Slab<Active<T>>>, mut callback: F) -> (r: bool)
//@ spec
        requires
            *old(tasks_cell) is Some,
            // C10 (no lost wake): the queue may be drained only AFTER the `notified` flag has been cleared -- a waker that
            // enqueues from now on finds the flag clear and writes a fresh wake-up
            may_recv(&state.incoming) <==> w_stored(&state.sender.notified, false),
            // C10 (results exactly once): the callback is callable ONLY with a result that has just been taken OUT of the
            // task table (values are not Clone: what was removed cannot be delivered again)
            forall|v: T, m: &mut ()| #[trigger] call_requires(callback, (v, m)) <==> crate::slab::w_slab_removed(Active::Finished(v)),
            // (must-call device) a call of the callback leaves the witness "delivered" (see the loop invariant)
            forall|v: T, m: &mut ()| #[trigger] call_ensures(callback, (v, m), ()) ==> w_result_delivered(v),
        ensures
            w_stored(&state.sender.notified, false),
            *final(tasks_cell) is Some,
            // r = clear_readiness: set only when the queue had nothing more to give
            r ==> (w_empty(&state.incoming) || w_disconnected(&state.incoming)),
//@ entry
        let mut clear_readiness = false;
        let ghost mut dequeued: Seq<Runnable<usize>> = Seq::empty();
        let ghost mut taken: Seq<T> = Seq::empty();
//@ before <<let index = *runnable.metadata();>>
                        proof { dequeued = dequeued.push(runnable); }
//@ before <<drop(active_guard);>>
                                proof { taken = taken.push(result); }
//@ loop 1
        invariant_except_break
            !clear_readiness,
            dequeued.len() == lit.index@,
        invariant
            *tasks_cell is Some,
            may_recv(&state.incoming),
            forall|v: T, m: &mut ()| #[trigger] call_requires(callback, (v, m)) <==> crate::slab::w_slab_removed(Active::Finished(v)),
            forall|v: T, m: &mut ()| #[trigger] call_ensures(callback, (v, m), ()) ==> w_result_delivered(v),
            // C10 (must-call side): every runnable taken out of the queue has been run (the future it belongs to polled), and
            // every finished result taken out of the task table has been handed to the callback -- nothing is dequeued or
            // removed and then dropped
            forall|i: int| 0 <= i < dequeued.len() ==> crate::async_task::w_ran(#[trigger] dequeued[i]),
            // ... and after every run the task's entry in the table has been looked at (a task that has just finished is
            // never scheduled again: if its result is not collected now it never is)
            forall|i: int| 0 <= i < dequeued.len() ==> crate::slab::w_slab_looked((#[trigger] dequeued[i]).spec_meta()),
            dequeued.len() <= lit.index@,
            forall|i: int| 0 <= i < taken.len() ==> w_result_delivered(#[trigger] taken[i]),
        ensures
            clear_readiness ==> (w_empty(&state.incoming) || w_disconnected(&state.incoming)),
            // ... and it stays false ONLY if the whole batch of 1024 was used up (otherwise the executor would re-arm itself for
            // ever on an empty queue: a busy loop)
            !clear_readiness ==> dequeued.len() == 1024,
//@ tail
        clear_readiness
//@ endslice

//@ slice src/sources/futures.rs / impl EventSource for Executor<T> / fn process_events :: stmts <<if !clear_readiness {>> .. <<if !clear_readiness {>> props=C10,C02,C12 name=Executor::process_events::post_drain
//@ sig
    /// S1 slice: the last statement of Executor::process_events. Free variables `clear_readiness`, `action` become parameters.
    fn exec_post_drain(&mut self, clear_readiness: bool, action: PostAction) -> (r: Result<PostAction, ExecutorError>)
//@ spec
        requires
            forall|f: int, c: u64| #[trigger] crate::sources::ping::eventfd::may_send(f, c) <==> (f == old(self).ping.raw() && c == 2),
            forall|f: int, b: Seq<u8>| #[trigger] crate::rustix::io::may_write(f, b) <==> (f == old(self).ping.raw() && b == crate::sources::ping::eventfd::ne_bytes(2)),
        ensures
            // C10/C02: a bounded batch never strands the remainder: if the queue was not seen empty the executor has re-armed
            // its own wake-up
            !clear_readiness ==> r == Ok::<PostAction, ExecutorError>(PostAction::Continue)
                && crate::rustix::io::w_write_called(old(self).ping.raw(), crate::sources::ping::eventfd::ne_bytes(2)),
            clear_readiness ==> r == Ok::<PostAction, ExecutorError>(action),
//@ endslice
}

//@ region executor_mustcall_specs props=C10
/// the result v has been handed to the executor's callback
pub uninterp spec fn w_result_delivered<T>(v: T) -> bool;
//@ endregion
//@ region executor_drop_specs props=C10
/// this waker has been woken (monotone witness)
pub uninterp spec fn w_task_woken(w: Waker) -> bool;
/// Rule R25: `std::panic::catch_unwind(|| E).ok();` becomes the block `{ E; }` -- whatever E is, so that an edit of E is
/// judged by the proof. ASSUMED: E does not panic (the real expression swallows a panic of E and goes on; under partial
/// correctness the inlined form loses exactly that path). `Waker::wake` leaves the witness that the task has been woken.
pub assume_specification [Waker::wake] (w: Waker)
    ensures w_task_woken(w);
/// the values of a slab in iteration order (ghost)
pub uninterp spec fn vals_of<T>(s: Slab<T>) -> Seq<T>;
pub open spec fn slab_values_of<T>(s: Slab<T>, v: Seq<T>) -> bool { v == vals_of(s) }
/// Rule R20: stand-in for the loop head `for (_, v) in slab` (Slab's IntoIter of (key, value) pairs)
#[verifier::external_body]
fn slab_into_values<T>(s: Slab<T>) -> (r: Vec<T>)
    ensures r@ == vals_of(s),
{ unimplemented!() }
/// ASSUMED: iterating a slab visits every occupied entry
#[verifier::external_body]
proof fn lemma_slab_values<T>(s: Slab<T>, v: Seq<T>, k: usize)
    requires v == vals_of(s), s@.dom().contains(k),
    ensures exists|i: int| 0 <= i < v.len() && #[trigger] v[i] == s@[k],
{}
//@ endregion
//@ region executor_ctor_specs props=C10
pub assume_specification<T> [Mutex::<T>::new] (t: T) -> (r: Mutex<T>)
    ensures mutex_content(&r) == t;
/// what a fresh Mutex holds (ghost; ASSUMED)
pub uninterp spec fn mutex_content<T>(m: &Mutex<T>) -> T;
/// Rule R23 (see channel.rs): derived Clone of `Ping`
#[verifier::external_body]
fn ping_clone(p: &Ping) -> (r: Ping)
    ensures r == *p,
{ p.clone() }
impl<T> Executor<T> {
    pub closed spec fn st(&self) -> Rc<State<T>> { self.state }
    pub closed spec fn own_fd(&self) -> int { self.ping.raw() }
}
impl<T> Scheduler<T> {
    pub closed spec fn st(&self) -> Rc<State<T>> { self.state }
}
impl<T> State<T> {
    pub closed spec fn wake_fd(&self) -> int { self.sender.wake_up.raw() }
    pub closed spec fn tx(&self) -> mpsc::Sender<Runnable<usize>> { mutex_content(&self.sender.sender) }
    pub closed spec fn rx(&self) -> &mpsc::Receiver<Runnable<usize>> { &self.incoming }
    pub closed spec fn flag(&self) -> &AtomicBool { &self.sender.notified }
}
//@ endregion
//@ item src/sources/futures.rs / fn executor props=C10 ret=r
//@ rw R23 * <<wake_up.clone()>> => <<ping_clone(&wake_up)>>
//@ rw R19 * <<AtomicBool::new(>> => <<atomic_new(>>
//@ spec
    ensures
        r matches Ok(p) ==> {
            // C10: executor and scheduler share ONE state; wakers write to the very eventfd the executor's PingSource polls
            // (which is also the one the executor re-arms itself through); the queue the wakers send into is the one the
            // executor drains
            &&& p.0.st() == p.1.st()
            &&& p.0.st().wake_fd() == p.0.src().raw()
            &&& p.0.own_fd() == p.0.src().raw()
            &&& queue_of_tx(&p.0.st().tx()) == queue_of_rx(p.0.st().rx())
            // the "already notified" flag starts CLEAR: the very first wake writes the eventfd (were it set, no waker would
            // ever ping the executor)
            &&& !atomic_init(p.0.st().flag())
        },
//@ enditem

//@ region executor_src_spec props=C16,C07,C15
impl<T> Executor<T> {
    pub closed spec fn src(&self) -> PingSource { self.source }
}
//@ endregion
//@ open src/sources/futures.rs / impl EventSource for Executor<T>
//@ item src/sources/futures.rs / impl EventSource for Executor<T> / type Event props=C16,C07,C15
//@ enditem
//@ item src/sources/futures.rs / impl EventSource for Executor<T> / type Metadata props=C16,C07,C15
//@ enditem
//@ item src/sources/futures.rs / impl EventSource for Executor<T> / type Ret props=C16,C07,C15
//@ enditem
//@ item src/sources/futures.rs / impl EventSource for Executor<T> / type Error props=C16,C07,C15
//@ enditem
//@ region executor_protocol props=C16,C07,C15
    // as far as registration goes the source IS its ping source (whose registration is that of its Generic<eventfd>)
    open spec fn wf(&self) -> bool { self.src().wf() }
    open spec fn registered(&self) -> bool { self.src().registered() }
    open spec fn register_req(&self) -> bool { self.src().register_req() }
    open spec fn register_ens(o: &Self, n: &Self, ok: bool) -> bool { PingSource::register_ens(&o.src(), &n.src(), ok) }
    open spec fn reregister_req(&self) -> bool { self.src().reregister_req() }
    open spec fn reregister_ens(o: &Self, n: &Self, ok: bool) -> bool { PingSource::reregister_ens(&o.src(), &n.src(), ok) }
    open spec fn unregister_req(&self) -> bool { self.src().unregister_req() }
    open spec fn unregister_ens(o: &Self, n: &Self, ok: bool) -> bool { PingSource::unregister_ens(&o.src(), &n.src(), ok) }
    open spec fn process_req(&self) -> bool { self.src().process_req() }
    open spec fn may_call(&self, readiness: Readiness, token: Token, e: T) -> bool { true }
    open spec fn cb_req<CbF: FnMut(T, &mut ())>(&self, readiness: Readiness, token: Token, callback: CbF) -> bool { true }
    open spec fn process_ens(o: &Self, n: &Self, readiness: Readiness, token: Token, r: Result<PostAction, ExecutorError>) -> bool { true }
//@ endregion
//@ item src/sources/futures.rs / impl EventSource for Executor<T> / fn process_events props=C16,C07,C15 sigonly
//@ rw R8 1 <<process_events<F>>> => <<process_events<CbF>>>
//@ rw R8 1 <<mut callback: F,>> => <<mut callback: CbF,>>
//@ rw R8 1 <<F: FnMut(T, &mut ()),>> => <<CbF: FnMut(T, &mut ()),>>
//@ enditem
//@ item src/sources/futures.rs / impl EventSource for Executor<T> / fn register props=C16,C07,C15
//@ enditem
//@ item src/sources/futures.rs / impl EventSource for Executor<T> / fn reregister props=C16,C07,C15
//@ enditem
//@ item src/sources/futures.rs / impl EventSource for Executor<T> / fn unregister props=C16,C07,C15
//@ enditem
//@ close
