pub mod io {
use vstd::prelude::*;
use std::cell::RefCell;
use std::rc::Rc;
use std::task::{Context, Poll as TaskPoll, Waker};
use std::io::{IoSlice, IoSliceMut};
use std::os::unix::io::{AsFd, AsRawFd, BorrowedFd, RawFd};
use crate::loop_logic::EventIterator;
use crate::{loop_logic::LoopInner, sources::EventDispatcher, Interest, Mode, Poll, PostAction, Readiness, Token, TokenFactory};
use crate::{AdditionalLifecycleEventsSet, RegistrationToken};
use crate::list::SourceList;
use crate::rustix;
//@ include io_body
} // mod io
