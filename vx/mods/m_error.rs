pub mod error {
use vstd::prelude::*;
//@ item src/error.rs / enum Error props=C01,C06
//@ rw R5 1 <<Box<dyn std::error::Error + Sync + Send>>> => <<crate::ext::BoxDynError>>
//@ enditem
//@ item src/error.rs / type Result props=C01
//@ enditem
} // mod error
pub use crate::error::{Error, Result};
