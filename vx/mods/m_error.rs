pub mod error {
use vstd::prelude::*;
//@ item src/error.rs / enum Error props=C01,C06
//@ rw R5 1 <<Box<dyn std::error::Error + Sync + Send>>> => <<crate::ext::BoxDynError>>
//@ enditem
//@ item src/error.rs / type Result props=C01
//@ enditem
//@ if insert_error
//@ item src/error.rs / struct InsertError props=C15
//@ enditem
//@ endif
//@ region error_from_spec props=C15
impl vstd::std_specs::convert::FromSpecImpl<std::io::Error> for Error {
    open spec fn obeys_from_spec() -> bool { true }
    open spec fn from_spec(value: std::io::Error) -> Error { Error::IoError(value) }
}
//@ endregion
//@ open src/error.rs / impl From<std::io::Error> for Error
//@ item src/error.rs / impl From<std::io::Error> for Error / fn from props=C15
//@ enditem
//@ close
//@ if err_to_io
//@ open src/error.rs / impl From<Error> for std::io::Error
//@ item src/error.rs / impl From<Error> for std::io::Error / fn from props=C17 sigonly
//@ enditem
//@ close
//@ endif
} // mod error
pub use crate::error::{Error, Result};
