pub mod token {
use vstd::prelude::*;
use vstd::std_specs::convert::*;
use std::convert::TryInto;

//@ include token_body
} // mod token
