//@ region prelude_exec
/// Stand-ins (rule D5) and ASSUMED contracts for what the executor source touches: std atomics, `slab::Slab`,
/// `async_task::Runnable`. All of it is opaque; contracts see it through the witnesses of DESIGN 2.12.
pub mod ext_atomic {
    use vstd::prelude::*;
    use std::sync::atomic::{AtomicBool, Ordering};
    // vstd already declares (contract-free) specifications for the std atomics, so the witnesses are attached through
    // identity stand-ins (rule R19: `flag.swap(v, o)` becomes `atomic_swap(&flag, v, o)`, likewise store).
    /// store(v) has been executed on this flag
    pub uninterp spec fn w_stored(a: &AtomicBool, v: bool) -> bool;
    /// a swap(new) on this flag has returned `prev`
    pub uninterp spec fn w_swapped(a: &AtomicBool, new: bool, prev: bool) -> bool;
    /// the value the flag was created with (ghost)
    pub uninterp spec fn atomic_init(a: &AtomicBool) -> bool;
    /// identity stand-in for `AtomicBool::new(v)` (rule R19)
    #[verifier::external_body]
    pub fn atomic_new(v: bool) -> (r: AtomicBool)
        ensures atomic_init(&r) == v,
    { AtomicBool::new(v) }
    #[verifier::external_body]
    pub fn atomic_store(a: &AtomicBool, v: bool, o: Ordering)
        ensures w_stored(a, v),
    { a.store(v, o) }
    #[verifier::external_body]
    pub fn atomic_swap(a: &AtomicBool, v: bool, o: Ordering) -> (r: bool)
        ensures w_swapped(a, v, r),
    { a.swap(v, o) }
}
pub mod slab {
    use vstd::prelude::*;
    #[verifier::external_body] #[verifier::reject_recursive_types(T)] #[derive(Debug)]
    pub struct Slab<T> { _p: std::marker::PhantomData<T> }
    /// the value v has been taken out of a slab by `remove` (monotone witness; values are not Clone, so a removed value
    /// exists once)
    pub uninterp spec fn w_slab_removed<T>(v: T) -> bool;
    /// the entry under this key has been looked at (`get`, `contains`; monotone witness)
    pub uninterp spec fn w_slab_looked(key: usize) -> bool;
    impl<T> Slab<T> {
        /// ASSUMED view: a finite map from keys to values
        pub uninterp spec fn view(&self) -> Map<usize, T>;
        /// ASSUMED (slab documentation of `vacant_key`): "the key of the vacant entry which will be used for the next insertion"
        pub uninterp spec fn next_key(&self) -> usize;
        #[verifier::external_body] pub fn new() -> (r: Slab<T>) ensures r@ == Map::<usize, T>::empty(), { unimplemented!() }
        #[verifier::external_body] pub fn get(&self, key: usize) -> (r: Option<&T>)
            ensures self@.dom().contains(key) ==> r == Some(&self@[key]), !self@.dom().contains(key) ==> r is None, w_slab_looked(key),
        { unimplemented!() }
        /// (the real remove panics on a vacant key)
        #[verifier::external_body] pub fn remove(&mut self, key: usize) -> (r: T)
            requires old(self)@.dom().contains(key),
            ensures r == old(self)@[key], final(self)@ == old(self)@.remove(key), w_slab_removed(r),
        { unimplemented!() }
        #[verifier::external_body] pub fn insert(&mut self, val: T) -> (r: usize)
            ensures !old(self)@.dom().contains(r), final(self)@ == old(self)@.insert(r, val), r == old(self).next_key(),
        { unimplemented!() }
        /// Rule R27: stand-in for the indexed assignment `slab[key] = val` (IndexMut; the real one panics on a vacant key)
        #[verifier::external_body] pub fn set(&mut self, key: usize, val: T)
            requires old(self)@.dom().contains(key),
            ensures final(self)@ == old(self)@.insert(key, val), final(self).next_key() == old(self).next_key(),
        { unimplemented!() }
        #[verifier::external_body] pub fn len(&self) -> (r: usize) ensures r == self@.dom().len(), { unimplemented!() }
        #[verifier::external_body] pub fn is_empty(&self) -> (r: bool) ensures r == (self@.dom().len() == 0), { unimplemented!() }
        #[verifier::external_body] pub fn contains(&self, key: usize) -> (r: bool) ensures r == self@.dom().contains(key), w_slab_looked(key), { unimplemented!() }
        #[verifier::external_body] pub fn vacant_key(&self) -> (r: usize) ensures !self@.dom().contains(r), r == self.next_key(), { unimplemented!() }
    }
}
pub mod futures_core {
    use vstd::prelude::*;
    use std::task::{Context, Poll};
    /// stand-in (rule D5) for `futures_core::Stream`: only the associated type; polling goes through `poll_next_unpin`
    pub trait Stream { type Item; }
    /// the stream has yielded `v` (Ready(Some(v)))
    pub uninterp spec fn w_yielded<S: Stream>(v: S::Item) -> bool;
    /// the stream has reported its end (Ready(None))
    pub uninterp spec fn w_stream_end<S: Stream>() -> bool;
    /// the value (an item, or the final None) has been handed to the source's callback
    pub uninterp spec fn w_delivered<S: Stream>(e: Option<S::Item>) -> bool;
    /// the stream has said Pending (its waker is registered)
    pub uninterp spec fn w_stream_pending<S: Stream>() -> bool;
    /// ASSUMED: `Pin::new(s).poll_next(cx)` of an Unpin stream; nothing but the witness of what it returned
    #[verifier::external_body]
    pub fn poll_next_unpin<S: Stream + Unpin>(s: &mut S, cx: &mut Context<'_>) -> (r: Poll<Option<S::Item>>)
        ensures match r {
            Poll::Ready(Some(v)) => w_yielded::<S>(v),
            Poll::Ready(None) => w_stream_end::<S>(),
            Poll::Pending => w_stream_pending::<S>(),
        },
    { unimplemented!() }
}
pub mod async_task {
    use vstd::prelude::*;
    #[verifier::external_body] #[verifier::reject_recursive_types(M)] #[derive(Debug)]
    pub struct Runnable<M> { _p: std::marker::PhantomData<M> }
    impl<M> Runnable<M> {
        /// the metadata the task was spawned with (here: its key in the executor's task table)
        pub uninterp spec fn spec_meta(&self) -> M;
        #[verifier::external_body] pub fn metadata(&self) -> (r: &M) ensures *r == self.spec_meta(), { unimplemented!() }
        /// ASSUMED: polls the task once (user code); no effect contracts can see
        #[verifier::external_body] pub fn run(self) -> (r: bool) ensures w_ran(self), { unimplemented!() }
        /// the waker of the task this runnable belongs to
        pub uninterp spec fn spec_waker(&self) -> std::task::Waker;
        #[verifier::external_body] pub fn waker(&self) -> (r: std::task::Waker) ensures r == self.spec_waker(), { unimplemented!() }
        /// ASSUMED: hands the runnable to the schedule function it was spawned with (here: futures::Sender::send); witness only
        #[verifier::external_body] pub fn schedule(self) ensures w_scheduled(self), { unimplemented!() }
    }
    /// `run()` has been called on this runnable (its task has been polled)
    pub uninterp spec fn w_ran<M>(r: Runnable<M>) -> bool;
    /// `schedule()` has been called on this runnable
    pub uninterp spec fn w_scheduled<M>(r: Runnable<M>) -> bool;
    #[verifier::external_body] #[verifier::reject_recursive_types(T)] #[verifier::reject_recursive_types(M)] #[derive(Debug)]
    pub struct Task<T, M> { _p: std::marker::PhantomData<(T, M)> }
    impl<T, M> Task<T, M> {
        #[verifier::external_body] pub fn detach(self) { unimplemented!() }
    }
}
