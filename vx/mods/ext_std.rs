//@ region prelude_std
/// External type specifications and ASSUMED contracts for std items vstd lacks (DESIGN 2.3).
pub mod ext {
    use vstd::prelude::*;
    use std::cell::{RefCell, RefMut};

    #[verifier::external_type_specification] #[verifier::external_body] #[verifier::reject_recursive_types(T)]
    pub struct ExRefCell<T: ?Sized>(RefCell<T>);
    #[verifier::external_type_specification] #[verifier::external_body] #[verifier::reject_recursive_types(T)]
    pub struct ExRefMut<'a, T: ?Sized + 'a>(RefMut<'a, T>);
    #[verifier::external_type_specification] #[verifier::external_body]
    pub struct ExBorrowMutError(std::cell::BorrowMutError);
    #[verifier::external_type_specification] #[verifier::external_body] #[verifier::reject_recursive_types(T)]
    pub struct ExCell<T: ?Sized>(std::cell::Cell<T>);
    #[verifier::external_type_specification] #[verifier::external_body]
    pub struct ExIoError(std::io::Error);
    #[verifier::external_type_specification] #[verifier::external_body] #[verifier::reject_recursive_types(T)]
    pub struct ExAssertUnwindSafe<T>(std::panic::AssertUnwindSafe<T>);
    #[verifier::external_type_specification] #[verifier::external_body]
    pub struct ExBorrowedFd<'a>(std::os::fd::BorrowedFd<'a>);
    #[verifier::external_type_specification] #[verifier::external_body]
    pub struct ExOwnedFd(std::os::fd::OwnedFd);
    /// the raw descriptor behind anything that is AsFd (ghost; ASSUMED stable for the lifetime of the value)
    pub uninterp spec fn fd_raw<F: ?Sized>(f: &F) -> int;
    /// ASSUMED: a reference to an AsFd object designates the descriptor of the object (std: `impl AsFd for &T`)
    #[verifier::external_body]
    pub broadcast proof fn axiom_fd_raw_ref<F>(f: &F)
        ensures #[trigger] fd_raw::<&F>(&f) == fd_raw::<F>(f),
    {}
    /// ASSUMED: an Arc of an AsFd object designates the descriptor of the object (std: `impl AsFd for Arc<T>`)
    #[verifier::external_body]
    pub broadcast proof fn axiom_fd_raw_arc<F>(f: &std::sync::Arc<F>)
        ensures #[trigger] fd_raw::<std::sync::Arc<F>>(f) == fd_raw::<F>(&**f),
    {}
    /// ASSUMED: BorrowedFd::borrow_raw(fd) designates the descriptor fd
    pub assume_specification<'a> [std::os::fd::BorrowedFd::<'a>::borrow_raw] (fd: std::os::fd::RawFd) -> (r: std::os::fd::BorrowedFd<'a>)
        ensures fd_raw(&r) == fd as int;
    #[verifier::external_trait_specification]
    pub trait ExAsFd {
        type ExternalTraitSpecificationFor: std::os::fd::AsFd;
        /// ASSUMED: borrowing a descriptor designates the same descriptor
        fn as_fd(&self) -> (r: std::os::fd::BorrowedFd<'_>)
            ensures fd_raw(&r) == fd_raw(self);
    }
    #[verifier::external_type_specification] #[verifier::external_body]
    #[verifier::accept_recursive_types(T)] #[verifier::reject_recursive_types(A)]
    pub struct ExBinaryHeap<T, A: std::alloc::Allocator>(std::collections::BinaryHeap<T, A>);
    #[verifier::external_type_specification] #[verifier::external_body]
    pub struct ExInstant(std::time::Instant);

    #[verifier::external_type_specification]
    pub struct ExErrorKind(std::io::ErrorKind);
    /// Rule R24: `res.expect(msg)` where the panic is the documented behaviour becomes a call of this stand-in, which --
    /// unlike vstd's specification of `Result::expect` -- has no precondition: if `res` is `Err` it does not return
    /// (partial correctness: what follows may assume `Ok`).
    #[verifier::external_body]
    pub fn expect_or_diverge<T, E: std::fmt::Debug>(res: Result<T, E>, msg: &str) -> (r: T)
        ensures res == Ok::<T, E>(r),
    { res.expect(msg) }
    /// Rule R24 for `Option::expect`
    #[verifier::external_body]
    pub fn expect_some_or_diverge<T>(opt: Option<T>, msg: &str) -> (r: T)
        ensures opt == Some(r),
    { opt.expect(msg) }
    pub assume_specification<T> [Option::<T>::replace] (o: &mut Option<T>, v: T) -> (r: Option<T>)
        ensures r == *old(o), *final(o) == Some(v);
    /// what a RefCell was created with (ghost; says nothing about later contents)
    pub uninterp spec fn refcell_init<T>(c: &RefCell<T>) -> T;
    pub assume_specification<T> [RefCell::<T>::new] (t: T) -> (r: RefCell<T>)
        ensures refcell_init(&r) == t;
    pub uninterp spec fn io_kind(e: std::io::Error) -> std::io::ErrorKind;
    pub assume_specification [std::io::Error::kind] (e: &std::io::Error) -> (r: std::io::ErrorKind)
        ensures r == io_kind(*e);
    /// ASSUMED: `==` on ErrorKind (derived PartialEq of a field-less enum) is equality
    pub assume_specification [<std::io::ErrorKind as PartialEq>::eq] (a: &std::io::ErrorKind, b: &std::io::ErrorKind) -> (r: bool)
        ensures r == (*a == *b);
    /// stand-in for `Box<dyn std::error::Error + Sync + Send>` (rule R5: Verus rejects dyn with several traits)
    #[verifier::external_body]
    #[derive(Debug)]
    pub struct BoxDynError { b: Box<dyn std::error::Error + Sync + Send> }

    /// ASSUMED: mem::take returns the old value and leaves T::default() behind
    pub assume_specification<T: std::default::Default> [std::mem::take] (x: &mut T) -> (r: T)
        ensures r == *old(x), call_ensures(T::default, (), *final(x));

    // ---- Option combinators vstd lacks (ASSUMED, standard meaning)
    pub assume_specification<T> [Option::<T>::or] (a: Option<T>, b: Option<T>) -> (r: Option<T>)
        ensures r == (if a is Some { a } else { b });
    pub assume_specification<T, F: FnOnce(&T) -> bool> [Option::<T>::filter] (o: Option<T>, f: F) -> (r: Option<T>)
        ensures match o {
            None => r is None,
            Some(x) => (call_ensures(f, (&x,), true) && r == Some(x)) || (call_ensures(f, (&x,), false) && r is None),
        };

    /// ASSUMED: cloning an Rc yields a handle to the same object (spec-equal to the original)
    pub assume_specification<T: ?Sized, A: std::alloc::Allocator + Clone> [<std::rc::Rc<T, A> as Clone>::clone] (a: &std::rc::Rc<T, A>) -> (r: std::rc::Rc<T, A>)
        ensures r == *a;
    /// ASSUMED: cloning an Arc yields a handle to the same object (spec-equal to the original)
    pub assume_specification<T: ?Sized, A: std::alloc::Allocator + Clone> [<std::sync::Arc<T, A> as Clone>::clone] (a: &std::sync::Arc<T, A>) -> (r: std::sync::Arc<T, A>)
        ensures r == *a;
    // (not used by the unchanged tree; an edit may start to use them) ASSUMED: nothing -- the answers are arbitrary
    pub assume_specification<T: ?Sized, A: std::alloc::Allocator> [std::sync::Arc::<T, A>::strong_count] (a: &std::sync::Arc<T, A>) -> (r: usize);
    pub assume_specification<T: ?Sized, A: std::alloc::Allocator> [std::rc::Rc::<T, A>::strong_count] (a: &std::rc::Rc<T, A>) -> (r: usize);
    pub assume_specification [std::thread::panicking] () -> (r: bool);
    /// std::mem::drop: no effect the contracts can see
    pub assume_specification<T: std::marker::Destruct> [std::mem::drop] (x: T);
    // ---- small std combinators that plausible edits of calloop use (ASSUMED, standard meaning)
    pub assume_specification<T> [bool::then_some] (b: bool, t: T) -> (r: Option<T>)
        ensures r == (if b { Some(t) } else { None::<T> });
    pub assume_specification<T, U, F: FnOnce(T) -> U> [Option::<T>::map_or] (o: Option<T>, default: U, f: F) -> (r: U)
        ensures match o { Some(x) => call_ensures(f, (x,), r), None => r == default };
    pub assume_specification<T, E, U, F: FnOnce(T) -> U> [Result::<T, E>::map_or] (o: Result<T, E>, default: U, f: F) -> (r: U)
        ensures match o { Ok(x) => call_ensures(f, (x,), r), Err(_) => r == default };
    pub assume_specification<T, E> [Result::<T, E>::is_ok_and] (o: Result<T, E>, f: impl FnOnce(T) -> bool) -> (r: bool)
        ensures match o { Ok(x) => call_ensures(f, (x,), r), Err(_) => !r };
    pub assume_specification<T> [Option::<T>::is_some_and] (o: Option<T>, f: impl FnOnce(T) -> bool) -> (r: bool)
        ensures match o { Some(x) => call_ensures(f, (x,), r), None => !r };
    pub assume_specification<T> [Option::<T>::is_none_or] (o: Option<T>, f: impl FnOnce(T) -> bool) -> (r: bool)
        ensures match o { Some(x) => call_ensures(f, (x,), r), None => r };
    // Cell: contents are opaque (DESIGN 1.4)
    // Two ghost predicates make calls on a Cell visible to contracts without modelling its contents (DESIGN 2.12):
    //  * cell_set_allowed(c, v): may-call side -- `set(c, v)` REQUIRES it; a function that owns the cell states in
    //    its own precondition for which values (and under which conditions) it is true, so every `set` in its body
    //    has to be justified;
    //  * cell_was_set(c, v): must-call side -- a monotone history witness ("v has been stored in c at some point"),
    //    produced only by the postconditions of set/replace; a function's postcondition that demands it can only be
    //    proved by actually making the call.
    pub uninterp spec fn cell_set_allowed<T>(c: &std::cell::Cell<T>, v: T) -> bool;
    pub uninterp spec fn cell_was_set<T>(c: &std::cell::Cell<T>, v: T) -> bool;
    pub assume_specification<T> [std::cell::Cell::<T>::replace] (c: &std::cell::Cell<T>, v: T) -> (r: T)
        ensures cell_was_set(c, v);
    pub assume_specification<T: Copy> [std::cell::Cell::<T>::get] (c: &std::cell::Cell<T>) -> (r: T);
    pub assume_specification<T> [std::cell::Cell::<T>::set] (c: &std::cell::Cell<T>, v: T)
        requires cell_set_allowed(c, v),
        ensures cell_was_set(c, v);
    #[verifier::external_type_specification] #[verifier::external_body] #[verifier::reject_recursive_types(T)]
    pub struct ExRef<'b, T: ?Sized>(std::cell::Ref<'b, T>);
    pub assume_specification<T: ?Sized> [RefCell::<T>::borrow] (c: &RefCell<T>) -> (r: std::cell::Ref<'_, T>);
    // RefCell: contents are opaque (DESIGN 1.3): a borrow yields an arbitrary value of T.
    pub assume_specification<T: ?Sized> [RefCell::<T>::borrow_mut] (c: &RefCell<T>) -> (r: RefMut<'_, T>);
    /// try_borrow_mut on this cell has failed (it was already borrowed): monotone witness
    pub uninterp spec fn w_borrow_failed<T: ?Sized>(c: &RefCell<T>) -> bool;
    pub assume_specification<T: ?Sized> [RefCell::<T>::try_borrow_mut] (c: &RefCell<T>) -> (r: Result<RefMut<'_, T>, std::cell::BorrowMutError>)
        ensures r is Err ==> w_borrow_failed(c);
}
//@ region prelude_std_vec
pub mod ext_vec {
    use vstd::prelude::*;
    use vstd::std_specs::iter::IteratorSpec;
    /// ASSUMED: Vec::retain keeps, in order, exactly the elements for which the closure returns true
    /// (stated for every predicate p the closure's possible results are consistent with).
    pub assume_specification<T, A: std::alloc::Allocator, F: FnMut(&T) -> bool> [Vec::<T, A>::retain] (v: &mut Vec<T, A>, f: F)
        ensures forall|p: spec_fn(T) -> bool| (forall|x: T| (call_ensures(f, (&x,), true) ==> #[trigger] p(x)) && (call_ensures(f, (&x,), false) ==> !p(x)))
                    ==> final(v)@ == #[trigger] old(v)@.filter(p);

    /// removing consecutive repeats (what `Vec::dedup` does for an `==` that is equality): the first of each run stays
    pub open spec fn dedup_adjacent<T>(s: Seq<T>) -> Seq<T>
        decreases s.len(),
    {
        if s.len() <= 1 { s }
        else if s[s.len() - 2] == s[s.len() - 1] { dedup_adjacent(s.drop_last()) }
        else { dedup_adjacent(s.drop_last()).push(s[s.len() - 1]) }
    }
    /// ASSUMED (std documentation of `Vec::dedup`): "Removes consecutive repeated elements"; stated for element types whose
    /// `==` is equality (calloop uses it, if at all, on token types with derived PartialEq)
    pub assume_specification<T: PartialEq, A: std::alloc::Allocator> [Vec::<T, A>::dedup] (v: &mut Vec<T, A>)
        ensures final(v)@ == dedup_adjacent(old(v)@);

    /// Rule R20 (see DESIGN 2.1): `v.drain(..)` as the iterator expression of a `for` head becomes a Vec holding the drained
    /// elements in order; the drained vector is left empty (ASSUMED: that is what a full-range drain consumed to its end does)
    #[verifier::external_body]
    pub fn drain_all<T>(v: &mut Vec<T>) -> (r: Vec<T>)
        ensures r@ == old(v)@, final(v)@.len() == 0,
    { v.drain(..).collect() }

    /// the elements an IntoIterator value yields, in order (ghost; ASSUMED meaning of `into_iter()` for the types below)
    pub uninterp spec fn iter_seq<T, I>(it: I) -> Seq<T>;
    /// ASSUMED: an Option iterates over its content (std: `impl IntoIterator for Option<T>`)
    #[verifier::external_body]
    pub broadcast proof fn axiom_iter_seq_option<T>(o: Option<T>)
        ensures #[trigger] iter_seq::<T, Option<T>>(o) == (match o { Some(x) => seq![x], None => Seq::<T>::empty() }),
    {}
    /// ASSUMED: Vec::extend appends what the iterator yields, in order
    pub assume_specification<T, A, I> [<std::vec::Vec<T, A> as std::iter::Extend<T>>::extend] (v: &mut std::vec::Vec<T, A>, it: I)
        where A: std::alloc::Allocator, I: std::iter::IntoIterator<Item = T>,
        ensures final(v)@ == old(v)@ + iter_seq::<T, I>(it);

    /// ASSUMED: slice::contains is membership w.r.t. `==` (for element types whose eq obeys its spec).
    pub assume_specification<T: PartialEq> [<[T]>::contains] (s: &[T], x: &T) -> (r: bool)
        ensures <T as vstd::std_specs::cmp::PartialEqSpec>::obeys_eq_spec() && (forall|a: T, b: T| (#[trigger] vstd::std_specs::cmp::PartialEqSpec::eq_spec(&a, &b)) <==> (a == b)) ==> r == s@.contains(*x);

    /// ASSUMED: Iterator::position on a slice iterator returns the index of the first element accepted by
    /// the closure (second quantifier of each case: same fact, triggerable from any Seq<T> index term).
    pub assume_specification<'a, T, P> [<std::slice::Iter<'a, T> as std::iter::Iterator>::position]
      (it: &mut std::slice::Iter<'a, T>, p: P) -> (r: std::option::Option<usize>)
      where P: std::ops::FnMut(&'a T) -> bool, std::slice::Iter<'a, T>: std::marker::Sized,
      ensures match r {
        Some(i) => i < old(it).remaining().len() && call_ensures(p, (old(it).remaining()[i as int],), true)
            && (forall|j: int| 0 <= j < i ==> call_ensures(p, (#[trigger] old(it).remaining()[j],), false))
            && (forall|s: Seq<T>, j: int| #![trigger s[j]] 0 <= j < i ==> call_ensures(p, (old(it).remaining()[j],), false)),
        None => (forall|j: int| 0 <= j < old(it).remaining().len() ==> call_ensures(p, (#[trigger] old(it).remaining()[j],), false))
            && (forall|s: Seq<T>, j: int| #![trigger s[j]] 0 <= j < old(it).remaining().len() ==> call_ensures(p, (old(it).remaining()[j],), false)),
      };

    pub broadcast proof fn lemma_push_contains<A>(s: Seq<A>, x: A, y: A)
        ensures #[trigger] s.push(x).contains(y) <==> (s.contains(y) || x == y),
    {
        let t = s.push(x);
        if s.contains(y) { let i = choose|i: int| 0 <= i < s.len() && s[i] == y; assert(t[i] == y); }
        if x == y { assert(t[s.len() as int] == y); }
        if t.contains(y) { let i = choose|i: int| 0 <= i < t.len() && t[i] == y; if i < s.len() { assert(s[i] == y); } }
    }

    pub broadcast proof fn lemma_push_no_dup<A>(s: Seq<A>, x: A)
        requires s.no_duplicates(), !s.contains(x),
        ensures #[trigger] s.push(x).no_duplicates(),
    {
        let t = s.push(x);
        assert forall|i: int, j: int| 0 <= i < t.len() && 0 <= j < t.len() && i != j implies t[i] != t[j] by {
            if i == s.len() { assert(s.contains(s[j])); }
            if j == s.len() { assert(s.contains(s[i])); }
        }
    }

    pub broadcast proof fn lemma_filter_props<A>(s: Seq<A>, p: spec_fn(A) -> bool)
        ensures
            forall|x: A| (#[trigger] s.filter(p)).contains(x) <==> (s.contains(x) && p(x)),
            s.no_duplicates() ==> s.filter(p).no_duplicates(),
        decreases s.len()
    {
        reveal(Seq::filter);
        if s.len() == 0 {
            assert(s.filter(p) =~= Seq::<A>::empty());
        } else {
            let s1 = s.drop_last();
            let l = s.last();
            lemma_filter_props(s1, p);
            assert(s =~= s1.push(l));
            assert forall|x: A| s.filter(p).contains(x) <==> (s.contains(x) && p(x)) by {
                if s.contains(x) {
                    let i = choose|i: int| 0 <= i < s.len() && s[i] == x;
                    if i < s1.len() { assert(s1[i] == x); assert(s1.contains(x)); }
                }
                if s1.contains(x) {
                    let i = choose|i: int| 0 <= i < s1.len() && s1[i] == x;
                    assert(s[i] == x);
                }
                if p(l) {
                    let f = s1.filter(p).push(l);
                    assert(f[f.len() - 1] == l);
                    if s1.filter(p).contains(x) {
                        let i = choose|i: int| 0 <= i < s1.filter(p).len() && s1.filter(p)[i] == x;
                        assert(f[i] == x);
                    }
                }
            }
            if s.no_duplicates() {
                assert(s1.no_duplicates());
                if p(l) {
                    assert(!s1.contains(l)) by {
                        if s1.contains(l) {
                            let i = choose|i: int| 0 <= i < s1.len() && s1[i] == l;
                            assert(s[i] == s[s.len() - 1]);
                        }
                    }
                    assert(!s1.filter(p).contains(l));
                }
            }
        }
    }
}
