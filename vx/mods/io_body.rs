//@ region io_prelude props=C16,C17
/// std::task::Waker as an opaque external type; ASSUMED: wake() has no effect the contracts can see except the
/// monotone witness "this waker has been woken".
#[verifier::external_type_specification] #[verifier::external_body]
pub struct ExWaker(std::task::Waker);
pub uninterp spec fn w_woken(w: Waker) -> bool;
pub assume_specification [Waker::wake] (w: Waker)
    ensures w_woken(w);
/// ASSUMED: BorrowedFd::borrow_raw(fd) designates the descriptor fd
pub assume_specification<'a> [BorrowedFd::<'a>::borrow_raw] (fd: RawFd) -> (r: BorrowedFd<'a>)
    ensures crate::ext::fd_raw(&r) == fd as int;
//@ endregion

//@ item src/io.rs / struct IoDispatcher props=C16,C17
//@ enditem
//@ item src/io.rs / trait IoLoopInner props=C16
//@ enditem

impl<'l, Data> LoopInner<'l, Data> {
//@ slice src/io.rs / impl IoLoopInner for LoopInner<'_, Data> / fn kill :: body props=C16,C06 name=IoLoopInner::kill
//@ rw R10 * <<dispatcher.borrow()>> => <<disp_cell>>
//@ rw R10 * <<self.sources.borrow_mut()>> => <<sources>>
//@ rw R10 * <<self.poll.try_borrow()>> => <<Ok::<&Poll, ()>(poll)>>
//@ sig
    /// S1 slice: the whole body of `IoLoopInner::kill` (what Async's Drop -- hence also into_inner -- does to the loop).
    /// Rule R10: the RefCell borrows become parameters (`disp_cell`: the adapter's IoDispatcher, `sources`: the slot list,
    /// `poll`: the Poll; a `try_borrow` is taken to succeed -- re-entrancy is C08 territory).
    fn kill_body(&self, disp_cell: &IoDispatcher, sources: &mut SourceList<'l, Data>, poll: &Poll)
//@ spec
        requires old(sources).wf(), disp_cell.token is Some,
        ensures
            final(sources).wf(), final(sources)@.len() == old(sources)@.len(),
            // C06: the adapter's slot is vacated (if its token is still the live one), no other slot is touched
            old(sources).lookup(disp_cell.token->Some_0.inner) matches Some(i) ==> final(sources)@[i].vacant() && final(sources)@[i].tok() == old(sources)@[i].tok(),
            forall|k: int| 0 <= k < old(sources)@.len() && old(sources).lookup(disp_cell.token->Some_0.inner) != Some(k) ==> #[trigger] final(sources)@[k] == old(sources)@[k],
            // C16: the IO object may outlive its adapter (into_inner): by the time the adapter is gone its fd has been
            // taken out of the OS poller, so the same fd can be adapted again and no ghost event arrives
            poll.pl().w_delete_called(disp_cell.fd as int),
//@ endslice

//@ slice src/io.rs / impl IoLoopInner for LoopInner<'_, Data> / fn register :: body props=C16,C17 name=IoLoopInner::register
//@ rw R10 * <<dispatcher.borrow()>> => <<disp_cell>>
//@ rw R10 * <<self.poll.borrow_mut()>> => <<poll>>
//@ sig
    /// S1 slice: whole body of `IoLoopInner::register` (R10 as above)
    unsafe fn io_register_body(&self, disp_cell: &IoDispatcher, poll: &mut Poll) -> (r: crate::Result<()>)
//@ spec
        requires disp_cell.token is Some,
        ensures
            // C16/C17: the adapter's fd enters the OS poller under the adapter's own token, one-shot, with no interest yet
            r is Ok ==> old(poll).pl().w_added(disp_cell.fd as int, crate::sys::expected_event(Interest::EMPTY, disp_cell.token->Some_0),
                                               crate::sys::spec_cvt_mode(Mode::OneShot, old(poll).pl().spec_supports_level())),
//@ endslice

//@ slice src/io.rs / impl IoLoopInner for LoopInner<'_, Data> / fn reregister :: body props=C16,C17 name=IoLoopInner::reregister
//@ rw R10 * <<dispatcher.borrow()>> => <<disp_cell>>
//@ rw R10 * <<self.poll.borrow_mut()>> => <<poll>>
//@ sig
    /// S1 slice: whole body of `IoLoopInner::reregister` (R10 as above)
    fn io_reregister_body(&self, disp_cell: &IoDispatcher, poll: &mut Poll) -> (r: crate::Result<()>)
//@ spec
        requires disp_cell.token is Some,
        ensures
            // C17: WouldBlock => the one-shot registration is re-armed with exactly the interest the task is waiting for
            r is Ok ==> old(poll).pl().w_modified(disp_cell.fd as int, crate::sys::expected_event(disp_cell.interest, disp_cell.token->Some_0),
                                                  crate::sys::spec_cvt_mode(Mode::OneShot, old(poll).pl().spec_supports_level())),
//@ endslice
}

impl IoDispatcher {
//@ slice src/io.rs / impl EventDispatcher<Data> for RefCell<IoDispatcher> / fn process_events :: body props=C17 name=IoDispatcher::process_events
//@ rw R10 * <<self.borrow_mut()>> => <<disp_cell>>
//@ sig
    /// S1 slice: whole body of `impl EventDispatcher for RefCell<IoDispatcher>::process_events`; R10: `self.borrow_mut()`
    /// becomes the parameter `disp_cell`.
    fn io_process_events_body<Data>(mut disp_cell: &mut IoDispatcher, readiness: Readiness, _token: Token, _data: &mut Data) -> (r: crate::Result<PostAction>)
//@ spec
        ensures
            // C17: an event records the readiness for the waiting task and wakes the stored waker (exactly that one, once:
            // it is taken out of the slot)
            final(disp_cell).last_readiness == readiness,
            final(disp_cell).waker is None,
            old(disp_cell).waker matches Some(w) ==> w_woken(w),
            r == Ok::<PostAction, crate::Error>(PostAction::Continue),
            final(disp_cell).fd == old(disp_cell).fd, final(disp_cell).token == old(disp_cell).token,
//@ endslice
}
