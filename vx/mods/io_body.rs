//@ region io_prelude props=C16,C17
/// std::task::Waker as an opaque external type; ASSUMED: wake() has no effect the contracts can see except the
/// monotone witness "this waker has been woken".
#[verifier::external_type_specification] #[verifier::external_body]
pub struct ExWaker(std::task::Waker);
pub uninterp spec fn w_woken(w: Waker) -> bool;
pub assume_specification [Waker::wake] (w: Waker)
    ensures w_woken(w);
//@ endregion

//@ item src/io.rs / struct IoDispatcher props=C16,C17
//@ enditem
//@ open src/io.rs / trait IoLoopInner
//@ region ioloopinner_ghost props=C16,C17,C15
    // monotone history witnesses (DESIGN 2.12)
    /// kill(dispatcher) has been called on this loop
    spec fn w_killed(&self, dispatcher: &RefCell<IoDispatcher>) -> bool;
    /// reregister(dispatcher) has been called and returned Ok
    spec fn w_rearmed(&self, dispatcher: &RefCell<IoDispatcher>) -> bool;
//@ endregion
//@ item src/io.rs / trait IoLoopInner / fn register props=C16 ret=r
//@ enditem
//@ item src/io.rs / trait IoLoopInner / fn reregister props=C17 ret=r
//@ spec
        ensures r is Ok ==> self.w_rearmed(dispatcher),
//@ enditem
//@ item src/io.rs / trait IoLoopInner / fn kill props=C16
//@ spec
        ensures self.w_killed(dispatcher),
//@ enditem
//@ close
//@ item src/io.rs / struct Async props=C16,C17
//@ enditem

//@ open src/io.rs / impl IoLoopInner for LoopInner<'_, Data>
//@ region ioloopinner_impl_ghost props=C16
    // the witnesses carry no information about a concrete loop (they are abstract for every caller)
    #[verifier::opaque] closed spec fn w_killed(&self, dispatcher: &RefCell<IoDispatcher>) -> bool { true }
    #[verifier::opaque] closed spec fn w_rearmed(&self, dispatcher: &RefCell<IoDispatcher>) -> bool { true }
//@ endregion
//@ item src/io.rs / impl IoLoopInner for LoopInner<'_, Data> / fn register props=C16 sigonly ret=r
//@ enditem
//@ item src/io.rs / impl IoLoopInner for LoopInner<'_, Data> / fn reregister props=C16 sigonly ret=r
//@ enditem
//@ item src/io.rs / impl IoLoopInner for LoopInner<'_, Data> / fn kill props=C16 sigonly
//@ enditem
//@ close

impl<'l, Data> LoopInner<'l, Data> {
//@ slice src/io.rs / impl IoLoopInner for LoopInner<'_, Data> / fn kill :: body props=C16,C06,C15 name=IoLoopInner::kill
//@ rw R10 * <<dispatcher .borrow()>> => <<disp_cell>>
//@ rw R10 * <<dispatcher.borrow_mut()>> => <<&mut *disp_cell>>
//@ rw R10 * <<self.sources.borrow_mut()>> => <<sources>>
//@ rw R10 * <<self.poll.try_borrow()>> => <<Ok::<&Poll, ()>(poll)>>
//@ sig
    /// S1 slice: the whole body of `IoLoopInner::kill` (what Async's Drop -- hence also into_inner -- and a failed adapt_io
    /// do to the loop). Rule R10: the RefCell borrows become parameters (`disp_cell`: the adapter's IoDispatcher, `sources`:
    /// the slot list, `poll`: the Poll; a `try_borrow` is taken to succeed -- re-entrancy is C08 territory).
    fn kill_body(&self, disp_cell: &mut IoDispatcher, sources: &mut SourceList<'l, Data>, poll: &Poll)
//@ spec
        requires
            old(sources).wf(), old(disp_cell).token is Some,
            // C15 (may-call side): the poller may be asked to delete ONLY the adapter's own fd and ONLY if the adapter itself
            // registered it -- after a rejected adapt_io the fd may belong to another source of the loop
            forall|d: int| #[trigger] poll.pl().may_delete(d) <==> (d == old(disp_cell).fd as int && old(disp_cell).is_registered),
        ensures
            final(sources).wf(), final(sources)@.len() == old(sources)@.len(),
            // C06: the adapter's slot is vacated (if its token is still the live one), no other slot is touched
            old(sources).lookup(old(disp_cell).token->Some_0.inner) matches Some(i) ==> final(sources)@[i].vacant() && final(sources)@[i].tok() == old(sources)@[i].tok(),
            forall|k: int| 0 <= k < old(sources)@.len() && old(sources).lookup(old(disp_cell).token->Some_0.inner) != Some(k) ==> #[trigger] final(sources)@[k] == old(sources)@[k],
            // C16: the IO object may outlive its adapter (into_inner): by the time the adapter is gone its fd has been
            // taken out of the OS poller (if the adapter had put it there), so the same fd can be adapted again and no ghost
            // event arrives; the flag is cleared so that nothing deletes the fd a second time
            old(disp_cell).is_registered ==> poll.pl().w_delete_called(old(disp_cell).fd as int) && !final(disp_cell).is_registered,
            final(disp_cell).fd == old(disp_cell).fd, final(disp_cell).token == old(disp_cell).token,
//@ endslice

//@ slice src/io.rs / impl IoLoopInner for LoopInner<'_, Data> / fn register :: body props=C16,C17 name=IoLoopInner::register
//@ rw R10 * <<dispatcher.borrow()>> => <<disp_cell>>
//@ rw R10 * <<self.poll.borrow_mut()>> => <<poll>>
//@ sig
    /// S1 slice: whole body of `IoLoopInner::register` (R10 as above)
    unsafe fn io_register_body(&self, disp_cell: &IoDispatcher, poll: &mut Poll) -> (r: crate::Result<()>)
//@ spec
        requires disp_cell.token is Some,
        ensures
            // C16/C17: the adapter's fd enters the OS poller under the adapter's own token, one-shot, with no interest yet
            r is Ok ==> old(poll).pl().w_added(disp_cell.fd as int, crate::sys::expected_event(Interest::EMPTY, disp_cell.token->Some_0),
                                               crate::sys::spec_cvt_mode(Mode::OneShot, old(poll).pl().spec_supports_level())),
//@ endslice

//@ slice src/io.rs / impl IoLoopInner for LoopInner<'_, Data> / fn reregister :: body props=C16,C17 name=IoLoopInner::reregister
//@ rw R10 * <<dispatcher.borrow()>> => <<disp_cell>>
//@ rw R10 * <<self.poll.borrow_mut()>> => <<poll>>
//@ sig
    /// S1 slice: whole body of `IoLoopInner::reregister` (R10 as above)
    fn io_reregister_body(&self, disp_cell: &IoDispatcher, poll: &mut Poll) -> (r: crate::Result<()>)
//@ spec
        requires disp_cell.token is Some,
        ensures
            // C17: WouldBlock => the one-shot registration is re-armed with exactly the interest the task is waiting for
            r is Ok ==> old(poll).pl().w_modified(disp_cell.fd as int, crate::sys::expected_event(disp_cell.interest, disp_cell.token->Some_0),
                                                  crate::sys::spec_cvt_mode(Mode::OneShot, old(poll).pl().spec_supports_level())),
//@ endslice
}

impl IoDispatcher {
//@ slice src/io.rs / impl EventDispatcher<Data> for RefCell<IoDispatcher> / fn process_events :: body props=C17 name=IoDispatcher::process_events
//@ rw R10 * <<self.borrow_mut()>> => <<disp_cell>>
//@ sig
    /// S1 slice: whole body of `impl EventDispatcher for RefCell<IoDispatcher>::process_events`; R10: `self.borrow_mut()`
    /// becomes the parameter `disp_cell`.
    fn io_process_events_body<Data>(mut disp_cell: &mut IoDispatcher, readiness: Readiness, _token: Token, _data: &mut Data) -> (r: crate::Result<PostAction>)
//@ spec
        ensures
            // C17: an event records the readiness for the waiting task and wakes the stored waker (exactly that one, once:
            // it is taken out of the slot)
            final(disp_cell).last_readiness == readiness,
            final(disp_cell).waker is None,
            old(disp_cell).waker matches Some(w) ==> w_woken(w),
            r == Ok::<PostAction, crate::Error>(PostAction::Continue),
            final(disp_cell).fd == old(disp_cell).fd, final(disp_cell).token == old(disp_cell).token,
//@ endslice
}

//@ region nonblocking_specs props=C17
/// the flag word set_nonblocking must install: the current one with O_NONBLOCK forced to `on`, everything else kept
pub open spec fn with_nonblock(f: crate::rustix::fs::OFlags, on: bool) -> crate::rustix::fs::OFlags {
    crate::rustix::fs::OFlags { bits: if on { f.bits | 0x800u32 } else { f.bits & !0x800u32 } }
}
pub open spec fn is_nonblock(f: crate::rustix::fs::OFlags) -> bool { (f.bits & 0x800u32) == 0x800u32 }
//@ endregion
//@ item src/io.rs / fn set_nonblocking props=C17 ret=r
//@ spec
    requires
        // C17 (may-call side): the only flag word that may be installed is the current one with O_NONBLOCK changed
        forall|d: int, f: crate::rustix::fs::OFlags| #[trigger] crate::rustix::fs::may_setfl(d, f) <==> (
            d == crate::ext::fd_raw(&fd) && f == with_nonblock(crate::rustix::fs::flags_of(d), is_nonblocking) && f != crate::rustix::fs::flags_of(d)),
    ensures
        // C17: reports the blocking mode the fd had BEFORE (this is what Drop / into_inner restore), and -- unless it was
        // already as requested -- has installed the requested mode, touching no other flag
        r matches Ok(prev) ==> {
            &&& prev == is_nonblock(crate::rustix::fs::flags_of(crate::ext::fd_raw(&fd)))
            &&& prev != is_nonblocking ==> crate::rustix::fs::w_setfl(crate::ext::fd_raw(&fd), with_nonblock(crate::rustix::fs::flags_of(crate::ext::fd_raw(&fd)), is_nonblocking))
        },
//@ entry
    proof {
        assert(forall|b: u32| #[trigger] (b | 0x800u32) == b <==> (b & 0x800u32) == 0x800u32) by (bit_vector);
        assert(forall|b: u32| #[trigger] (b & !0x800u32) == b <==> (b & 0x800u32) != 0x800u32) by (bit_vector);
    }
//@ enditem

impl<'l, F: AsFd> Async<'l, F> {
//@ slice src/io.rs / impl Async<'l, F> / fn new :: stmts <<if let Err(err) = unsafe { inner.register(&dispatcher) }>> .. <<dispatcher.borrow_mut().is_registered = true;>> props=C15,C16,C17 name=Async::new::register_step
//@ rw R10 * <<dispatcher.borrow_mut()>> => <<disp_cell>>
//@ sig
    /// S1 slice of Async::new: the statement that registers the freshly built dispatcher and cleans up if that fails,
    /// and the one that records a successful registration. Free variables `inner`, `dispatcher`, `fd`, `was_nonblocking`
    /// become parameters; R10: `dispatcher.borrow_mut()` becomes `disp_cell`. Dropped: everything before (switch to
    /// non-blocking, dispatcher construction, slot allocation -- it needs an unsizing coercion Verus does not support) and
    /// after (the transmute that erases `Data`, the struct literal).
    fn new_register_step<Data>(inner: Rc<LoopInner<'l, Data>>, dispatcher: Rc<RefCell<IoDispatcher>>, disp_cell: &mut IoDispatcher, fd: F, was_nonblocking: bool) -> (r: crate::Result<()>)
//@ spec
        requires
            // C15 (may-call side): the only flag word the failure path may install is the one that puts O_NONBLOCK back
            forall|d: int, f: crate::rustix::fs::OFlags| #[trigger] crate::rustix::fs::may_setfl(d, f) <==> (
                d == crate::ext::fd_raw(&fd) && f == with_nonblock(crate::rustix::fs::flags_of(d), was_nonblocking) && f != crate::rustix::fs::flags_of(d)),
        ensures
            // C15: if registering the fd fails the adapter's slot is given back to the loop (kill vacates it; it does not touch
            // the poller because the adapter is not marked registered) before the error is returned: the loop is as if
            // adapt_io had not been called
            r is Err ==> inner.w_killed(&*dispatcher) && final(disp_cell).is_registered == old(disp_cell).is_registered,
            // C16: a successful registration is recorded, so that kill() will take the fd out of the poller again
            r is Ok ==> final(disp_cell).is_registered,
//@ entry
        proof { broadcast use crate::ext::axiom_fd_raw_ref; }
//@ tail
        Ok(())
//@ endslice

//@ slice src/io.rs / impl Drop for Async<'_, F> / fn drop :: body props=C16,C17 name=Async::drop
//@ rw R10 * <<self.dispatcher.borrow()>> => <<disp_cell>>
//@ sig
    /// S1 slice: the whole body of `impl Drop for Async` (runs on drop AND at the end of into_inner), lifted into an
    /// ordinary method; R10: the borrow of the adapter's IoDispatcher cell becomes `disp_cell`.
    fn async_drop_body(&mut self, disp_cell: &IoDispatcher)
//@ spec
        requires
            // C17 (may-call side): the only flag word Drop may install is the current one with O_NONBLOCK put back to what it
            // was before the adapter was created
            forall|d: int, f: crate::rustix::fs::OFlags| #[trigger] crate::rustix::fs::may_setfl(d, f) <==> (
                d == disp_cell.fd as int && f == with_nonblock(crate::rustix::fs::flags_of(d), old(self).was_nonblocking) && f != crate::rustix::fs::flags_of(d)),
        ensures
            // C16: the adapter has been taken out of the loop (slot vacated and fd deleted from the poller: see kill)
            old(self).inner.w_killed(&*old(self).dispatcher),
//@ endslice

//@ slice src/io.rs / impl Async<'l, F> / fn register_waker :: body props=C17 name=Async::register_waker
//@ rw R10 * <<self.dispatcher.borrow_mut()>> => <<disp_cell>>
//@ sig
    /// S1 slice: whole body of Async::register_waker (what a poll that hit WouldBlock does); R10 as above.
    fn register_waker_body(&self, disp_cell: &mut IoDispatcher, interest: Interest, waker: Waker) -> (r: crate::Result<()>)
//@ spec
        ensures
            // C17: the task's waker and the interest it waits for are stored BEFORE the one-shot registration is re-armed
            final(disp_cell).interest == interest, final(disp_cell).waker == Some(waker),
            final(disp_cell).fd == old(disp_cell).fd, final(disp_cell).token == old(disp_cell).token,
            r is Ok ==> self.inner.w_rearmed(&*self.dispatcher),
//@ endslice
}
