//@ region io_prelude props=C16,C17
/// std::task::Waker as an opaque external type; ASSUMED: wake() has no effect the contracts can see except the
/// monotone witness "this waker has been woken".
#[verifier::external_type_specification] #[verifier::external_body]
pub struct ExWaker(std::task::Waker);
pub uninterp spec fn w_woken(w: Waker) -> bool;
pub assume_specification [Waker::wake] (w: Waker)
    ensures w_woken(w);
/// std::task::Context: opaque; ASSUMED: `waker()` returns the one waker of the context, a clone of a waker wakes the same
/// task (it IS the same waker for every contract here).
#[verifier::external_type_specification] #[verifier::external_body]
pub struct ExContext<'a>(std::task::Context<'a>);
pub uninterp spec fn cx_waker(cx: &Context<'_>) -> Waker;
pub assume_specification<'a, 'b> [Context::<'a>::waker] (cx: &'b Context<'a>) -> (r: &'a Waker)
    ensures *r == cx_waker(cx);
/// (not used by the unchanged tree; an edit may start to use it) ASSUMED: nothing -- the answer is arbitrary
pub assume_specification [Waker::will_wake] (w: &Waker, other: &Waker) -> (r: bool);
pub assume_specification [<Waker as Clone>::clone] (w: &Waker) -> (r: Waker)
    ensures r == *w;
#[verifier::external_type_specification] #[verifier::accept_recursive_types(T)]
pub struct ExTaskPoll<T>(std::task::Poll<T>);
/// std::io::{Read, Write} of the wrapped object: ASSUMED nothing but the monotone witness "this operation returned this
/// result" (so that a contract can say WHICH result a poll hands on).
pub uninterp spec fn w_io_returned(res: std::io::Result<usize>) -> bool;
pub uninterp spec fn w_flush_returned(res: std::io::Result<()>) -> bool;
#[verifier::external_trait_specification]
pub trait ExRead {
    type ExternalTraitSpecificationFor: std::io::Read;
    fn read(&mut self, buf: &mut [u8]) -> (r: std::io::Result<usize>)
        ensures w_io_returned(r);
    fn read_vectored(&mut self, bufs: &mut [std::io::IoSliceMut<'_>]) -> (r: std::io::Result<usize>)
        ensures w_io_returned(r);
}
#[verifier::external_trait_specification]
pub trait ExWrite {
    type ExternalTraitSpecificationFor: std::io::Write;
    fn write(&mut self, buf: &[u8]) -> (r: std::io::Result<usize>)
        ensures w_io_returned(r);
    fn write_vectored(&mut self, bufs: &[std::io::IoSlice<'_>]) -> (r: std::io::Result<usize>)
        ensures w_io_returned(r);
    fn flush(&mut self) -> (r: std::io::Result<()>)
        ensures w_flush_returned(r);
}
#[verifier::external_type_specification] #[verifier::external_body]
pub struct ExIoSliceMut<'a>(std::io::IoSliceMut<'a>);
#[verifier::external_type_specification] #[verifier::external_body]
pub struct ExIoSlice<'a>(std::io::IoSlice<'a>);
pub open spec fn would_block<T>(res: std::io::Result<T>) -> bool {
    res matches Err(e) && crate::ext::io_kind(e) == std::io::ErrorKind::WouldBlock
}
/// identity stand-in for the unsizing coercion Rc<RefCell<IoDispatcher>> -> Rc<dyn EventDispatcher<Data>> (rule R15)
pub uninterp spec fn unsize_io_dispatcher_spec<'l, Data>(d: Rc<RefCell<IoDispatcher>>) -> Rc<dyn EventDispatcher<Data> + 'l>;
#[verifier::external_body]
pub fn unsize_io_dispatcher<'l, Data>(d: Rc<RefCell<IoDispatcher>>) -> (r: Rc<dyn EventDispatcher<Data> + 'l>)
    ensures r == unsize_io_dispatcher_spec::<Data>(d),
{ unimplemented!() }
pub assume_specification<T> [std::mem::replace::<T>] (dest: &mut T, src: T) -> (r: T)
    ensures r == *old(dest), *final(dest) == src;
//@ endregion

//@ item src/io.rs / struct IoDispatcher props=C16,C17
//@ enditem
//@ open src/io.rs / trait IoLoopInner
//@ region ioloopinner_ghost props=C16,C17,C15
    // monotone history witnesses (DESIGN 2.12)
    /// kill(dispatcher) has been called on this loop
    spec fn w_killed(&self, dispatcher: &RefCell<IoDispatcher>) -> bool;
    /// reregister(dispatcher) has been called and returned Ok
    spec fn w_rearmed(&self, dispatcher: &RefCell<IoDispatcher>) -> bool;
//@ endregion
//@ item src/io.rs / trait IoLoopInner / fn register props=C16 ret=r
//@ enditem
//@ item src/io.rs / trait IoLoopInner / fn reregister props=C17 ret=r
//@ spec
        ensures r is Ok ==> self.w_rearmed(dispatcher),
//@ enditem
//@ item src/io.rs / trait IoLoopInner / fn kill props=C16
//@ spec
        ensures self.w_killed(dispatcher),
//@ enditem
//@ close
//@ item src/io.rs / struct Async props=C16,C17
//@ enditem

//@ open src/io.rs / impl IoLoopInner for LoopInner<'_, Data>
//@ region ioloopinner_impl_ghost props=C16
    // the witnesses carry no information about a concrete loop (they are abstract for every caller)
    #[verifier::opaque] closed spec fn w_killed(&self, dispatcher: &RefCell<IoDispatcher>) -> bool { true }
    #[verifier::opaque] closed spec fn w_rearmed(&self, dispatcher: &RefCell<IoDispatcher>) -> bool { true }
//@ endregion
//@ item src/io.rs / impl IoLoopInner for LoopInner<'_, Data> / fn register props=C16 sigonly ret=r
//@ enditem
//@ item src/io.rs / impl IoLoopInner for LoopInner<'_, Data> / fn reregister props=C16 sigonly ret=r
//@ enditem
//@ item src/io.rs / impl IoLoopInner for LoopInner<'_, Data> / fn kill props=C16 sigonly
//@ enditem
//@ close

impl<'l, Data> LoopInner<'l, Data> {
//@ slice src/io.rs / impl IoLoopInner for LoopInner<'_, Data> / fn kill :: body props=C16,C06,C15 name=IoLoopInner::kill
//@ rw R10 * <<dispatcher .borrow()>> => <<disp_cell>>
//@ rw R10 * <<dispatcher.borrow_mut()>> => <<&mut *disp_cell>>
//@ rw R10 * <<self.sources.borrow_mut()>> => <<sources>>
//@ rw R10 * <<self.poll.try_borrow()>> => <<Ok::<&Poll, ()>(poll)>>
//@ sig
    /// S1 slice: the whole body of `IoLoopInner::kill` (what Async's Drop -- hence also into_inner -- and a failed adapt_io
    /// do to the loop). Rule R10: the RefCell borrows become parameters (`disp_cell`: the adapter's IoDispatcher, `sources`:
    /// the slot list, `poll`: the Poll; a `try_borrow` is taken to succeed -- re-entrancy is C08 territory).
    fn kill_body(&self, disp_cell: &mut IoDispatcher, sources: &mut SourceList<'l, Data>, poll: &Poll)
//@ spec
        requires
            old(sources).wf(), old(disp_cell).token is Some,
            // C15 (may-call side): the poller may be asked to delete ONLY the adapter's own fd and ONLY if the adapter itself
            // registered it -- after a rejected adapt_io the fd may belong to another source of the loop
            forall|d: int| #[trigger] poll.pl().may_delete(d) <==> (d == old(disp_cell).fd as int && old(disp_cell).is_registered),
        ensures
            final(sources).wf(), final(sources)@.len() == old(sources)@.len(),
            // C06: the adapter's slot is vacated (if its token is still the live one), no other slot is touched
            old(sources).lookup(old(disp_cell).token->Some_0.inner) matches Some(i) ==> final(sources)@[i].vacant() && final(sources)@[i].tok() == old(sources)@[i].tok(),
            forall|k: int| 0 <= k < old(sources)@.len() && old(sources).lookup(old(disp_cell).token->Some_0.inner) != Some(k) ==> #[trigger] final(sources)@[k] == old(sources)@[k],
            // C16: the IO object may outlive its adapter (into_inner): by the time the adapter is gone its fd has been
            // taken out of the OS poller (if the adapter had put it there), so the same fd can be adapted again and no ghost
            // event arrives; the flag is cleared so that nothing deletes the fd a second time
            old(disp_cell).is_registered ==> poll.pl().w_delete_called(old(disp_cell).fd as int) && !final(disp_cell).is_registered,
            final(disp_cell).fd == old(disp_cell).fd, final(disp_cell).token == old(disp_cell).token,
//@ endslice

//@ slice src/io.rs / impl IoLoopInner for LoopInner<'_, Data> / fn register :: body props=C16,C17 name=IoLoopInner::register
//@ rw R10 * <<dispatcher.borrow()>> => <<disp_cell>>
//@ rw R10 * <<self.poll.borrow_mut()>> => <<poll>>
//@ sig
    /// S1 slice: whole body of `IoLoopInner::register` (R10 as above)
    unsafe fn io_register_body(&self, disp_cell: &IoDispatcher, poll: &mut Poll) -> (r: crate::Result<()>)
//@ spec
        requires disp_cell.token is Some,
        ensures
            // C16/C17: the adapter's fd enters the OS poller under the adapter's own token, one-shot, with no interest yet
            r is Ok ==> old(poll).pl().w_added(disp_cell.fd as int, crate::sys::expected_event(Interest::EMPTY, disp_cell.token->Some_0),
                                               crate::sys::spec_cvt_mode(Mode::OneShot, old(poll).pl().spec_supports_level())),
//@ endslice

//@ slice src/io.rs / impl IoLoopInner for LoopInner<'_, Data> / fn reregister :: body props=C16,C17 name=IoLoopInner::reregister
//@ rw R10 * <<dispatcher.borrow()>> => <<disp_cell>>
//@ rw R10 * <<self.poll.borrow_mut()>> => <<poll>>
//@ sig
    /// S1 slice: whole body of `IoLoopInner::reregister` (R10 as above)
    fn io_reregister_body(&self, disp_cell: &IoDispatcher, poll: &mut Poll) -> (r: crate::Result<()>)
//@ spec
        requires disp_cell.token is Some,
        ensures
            // C17: WouldBlock => the one-shot registration is re-armed with exactly the interest the task is waiting for
            r is Ok ==> old(poll).pl().w_modified(disp_cell.fd as int, crate::sys::expected_event(disp_cell.interest, disp_cell.token->Some_0),
                                                  crate::sys::spec_cvt_mode(Mode::OneShot, old(poll).pl().spec_supports_level())),
//@ endslice
}

impl IoDispatcher {
//@ slice src/io.rs / impl EventDispatcher<Data> for RefCell<IoDispatcher> / fn process_events :: body props=C17 name=IoDispatcher::process_events
//@ rw R10 * <<self.borrow_mut()>> => <<disp_cell>>
//@ sig
    /// S1 slice: whole body of `impl EventDispatcher for RefCell<IoDispatcher>::process_events`; R10: `self.borrow_mut()`
    /// becomes the parameter `disp_cell`.
    fn io_process_events_body<Data>(mut disp_cell: &mut IoDispatcher, readiness: Readiness, _token: Token, _data: &mut Data) -> (r: crate::Result<PostAction>)
//@ spec
        ensures
            // C17: an event records the readiness for the waiting task and wakes the stored waker (exactly that one, once:
            // it is taken out of the slot)
            final(disp_cell).last_readiness == readiness,
            final(disp_cell).waker is None,
            old(disp_cell).waker matches Some(w) ==> w_woken(w),
            r == Ok::<PostAction, crate::Error>(PostAction::Continue),
            final(disp_cell).fd == old(disp_cell).fd, final(disp_cell).token == old(disp_cell).token,
//@ endslice
}

impl IoDispatcher {
//@ slice src/io.rs / impl EventDispatcher<Data> for RefCell<IoDispatcher> / fn unregister :: body props=C16,C06,C15 name=IoDispatcher::unregister
//@ rw R10 * <<self.borrow()>> => <<disp_cell>>
//@ sig
    /// S1 slice: whole body of `impl EventDispatcher for RefCell<IoDispatcher>::unregister` (what LoopHandle::remove / the
    /// per-event body of dispatch_events do to an adapter's dispatcher); R10: `self.borrow()` becomes `disp_cell`. The two
    /// unused parameters (`_`) get names.
    fn io_unregister_body(disp_cell: &IoDispatcher, poll: &mut Poll, _extra: &mut AdditionalLifecycleEventsSet, _token: RegistrationToken) -> (r: crate::Result<bool>)
//@ spec
        requires
            // C15 (may-call side): only the adapter's own fd may be deleted, and only if the adapter registered it
            forall|d: int| #[trigger] old(poll).pl().may_delete(d) <==> (d == disp_cell.fd as int && disp_cell.is_registered),
        ensures
            // C16/C06: Ok means: if the adapter had its fd in the OS poller, it has been deleted from it
            r is Ok ==> r == Ok::<bool, crate::Error>(true) && (disp_cell.is_registered ==> old(poll).pl().w_deleted(disp_cell.fd as int)),
            final(_extra)@ == old(_extra)@,
//@ endslice
}

//@ region nonblocking_specs props=C17
/// the flag word set_nonblocking must install: the current one with O_NONBLOCK forced to `on`, everything else kept
pub open spec fn with_nonblock(f: crate::rustix::fs::OFlags, on: bool) -> crate::rustix::fs::OFlags {
    crate::rustix::fs::OFlags { bits: if on { f.bits | 0x800u32 } else { f.bits & !0x800u32 } }
}
pub open spec fn is_nonblock(f: crate::rustix::fs::OFlags) -> bool { (f.bits & 0x800u32) == 0x800u32 }
//@ endregion
//@ item src/io.rs / fn set_nonblocking props=C17 ret=r
//@ spec
    requires
        // C17 (may-call side): the only flag word that may be installed is the current one with O_NONBLOCK changed
        forall|d: int, f: crate::rustix::fs::OFlags| #[trigger] crate::rustix::fs::may_setfl(d, f) <==> (
            d == crate::ext::fd_raw(&fd) && f == with_nonblock(crate::rustix::fs::flags_of(d), is_nonblocking) && f != crate::rustix::fs::flags_of(d)),
    ensures
        // C17: reports the blocking mode the fd had BEFORE (this is what Drop / into_inner restore), and -- unless it was
        // already as requested -- has installed the requested mode, touching no other flag
        r matches Ok(prev) ==> {
            &&& prev == is_nonblock(crate::rustix::fs::flags_of(crate::ext::fd_raw(&fd)))
            &&& prev != is_nonblocking ==> crate::rustix::fs::w_setfl(crate::ext::fd_raw(&fd), with_nonblock(crate::rustix::fs::flags_of(crate::ext::fd_raw(&fd)), is_nonblocking))
        },
//@ entry
    proof {
        assert(forall|b: u32| #[trigger] (b | 0x800u32) == b <==> (b & 0x800u32) == 0x800u32) by (bit_vector);
        assert(forall|b: u32| #[trigger] (b & !0x800u32) == b <==> (b & 0x800u32) != 0x800u32) by (bit_vector);
    }
//@ enditem

//@ open src/io.rs / impl IoDispatcher
//@ item src/io.rs / impl IoDispatcher / fn readiness props=C17 ret=r
//@ spec
        ensures
            // C17: the recorded readiness is handed out ONCE: taking it clears it (a later poll waits for a new event)
            r == old(self).last_readiness, final(self).last_readiness == Readiness::EMPTY,
            final(self).fd == old(self).fd, final(self).token == old(self).token, final(self).waker == old(self).waker,
            final(self).interest == old(self).interest, final(self).is_registered == old(self).is_registered,
//@ enditem
//@ close

//@ region async_witnesses props=C17
// monotone history witnesses for the two private methods of Async the futures go through (DESIGN 2.12): produced only by
// the postconditions of the signature-only items below; the bodies of these two methods are proved as slices (R10) with the
// concrete meaning: readiness() hands out and clears the dispatcher's recorded readiness; register_waker() stores interest
// and waker and re-arms the one-shot registration.
/// `io.readiness()` has been called and returned `r`
pub uninterp spec fn w_readiness_taken<F: AsFd>(io: &Async<'_, F>, r: Readiness) -> bool;
/// `io.register_waker(interest, waker)` has been called
pub uninterp spec fn w_waker_registered<F: AsFd>(io: &Async<'_, F>, interest: Interest, waker: Waker) -> bool;
//@ endregion
//@ open src/io.rs / impl Async<'l, F>
//@ item src/io.rs / impl Async<'l, F> / fn readiness props=C17 sigonly ret=r
//@ spec
        ensures w_readiness_taken(self, r),
//@ enditem
//@ item src/io.rs / impl Async<'l, F> / fn register_waker props=C17 sigonly ret=r
//@ spec
        ensures w_waker_registered(self, interest, waker),
//@ enditem
//@ item src/io.rs / impl Async<'l, F> / fn get_mut props=C17 sigonly
//@ enditem
//@ close

impl<'l, F: AsFd + std::io::Read> Async<'l, F> {
//@ slice src/io.rs / impl AsyncRead for Async<'_, F> / fn poll_read :: body props=C17 name=Async::poll_read
//@ rw R21 * <<(*self).get_mut()>> => <<slf.get_mut()>>
//@ rw R21 * <<self.register_waker(>> => <<match slf.register_waker(>>
//@ rw R22 1/1 <<)?;>> => <<) { Ok(v) => v, Err(e) => return TaskPoll::Ready(Err(std::io::Error::from(e))) };>>
//@ sig
    /// S1 slice: whole body of `<Async as AsyncRead>::poll_read`. R21: `self: Pin<&mut Self>` of the Unpin type Async is
    /// the parameter `slf: &mut Async`; R22: `?` in a function returning `Poll<Result<..>>` is written out as std's
    /// FromResidual impl defines it (`Err(e) => return Poll::Ready(Err(From::from(e)))`).
    fn poll_read_body(slf: &mut Async<'l, F>, cx: &mut Context<'_>, buf: &mut [u8]) -> (r: TaskPoll<std::io::Result<usize>>)
//@ spec
        ensures
            // C17: Pending only after the operation said WouldBlock AND the task's waker has been stored with READ interest
            // (register_waker then re-arms the one-shot registration): no path parks the task without arranging its wake-up
            r is Pending ==> w_waker_registered(&*final(slf), Interest::READ, cx_waker(&*old(cx)))
                && exists|x: std::io::Result<usize>| #[trigger] w_io_returned(x) && would_block(x),
            // every other result of the operation (data, EOF, a real error) is handed to the task unchanged; the only other
            // way to Ready is a failed re-arm, reported as an error
            r matches TaskPoll::Ready(res) ==> (w_io_returned(res) && !would_block(res))
                || (res is Err && w_waker_registered(&*final(slf), Interest::READ, cx_waker(&*old(cx)))),
//@ endslice
//@ slice src/io.rs / impl AsyncRead for Async<'_, F> / fn poll_read_vectored :: body props=C17 name=Async::poll_read_vectored
//@ rw R21 * <<(*self).get_mut()>> => <<slf.get_mut()>>
//@ rw R21 * <<self.register_waker(>> => <<match slf.register_waker(>>
//@ rw R22 1/1 <<)?;>> => <<) { Ok(v) => v, Err(e) => return TaskPoll::Ready(Err(std::io::Error::from(e))) };>>
//@ sig
    /// S1 slice: whole body of `<Async as AsyncRead>::poll_read_vectored`; rules R21, R22 as for poll_read.
    fn poll_read_vectored_body(slf: &mut Async<'l, F>, cx: &mut Context<'_>, bufs: &mut [IoSliceMut<'_>]) -> (r: TaskPoll<std::io::Result<usize>>)
//@ spec
        ensures
            // C17: Pending only after the operation said WouldBlock AND the task's waker has been stored with READ interest
            // (register_waker then re-arms the one-shot registration): no path parks the task without arranging its wake-up
            r is Pending ==> w_waker_registered(&*final(slf), Interest::READ, cx_waker(&*old(cx)))
                && exists|x: std::io::Result<usize>| #[trigger] w_io_returned(x) && would_block(x),
            // every other result of the operation (data, EOF, a real error) is handed to the task unchanged; the only other
            // way to Ready is a failed re-arm, reported as an error
            r matches TaskPoll::Ready(res) ==> (w_io_returned(res) && !would_block(res))
                || (res is Err && w_waker_registered(&*final(slf), Interest::READ, cx_waker(&*old(cx)))),
//@ endslice
}
impl<'l, F: AsFd + std::io::Write> Async<'l, F> {
//@ slice src/io.rs / impl AsyncWrite for Async<'_, F> / fn poll_write :: body props=C17 name=Async::poll_write
//@ rw R21 * <<(*self).get_mut()>> => <<slf.get_mut()>>
//@ rw R21 * <<self.register_waker(>> => <<match slf.register_waker(>>
//@ rw R22 1/1 <<)?;>> => <<) { Ok(v) => v, Err(e) => return TaskPoll::Ready(Err(std::io::Error::from(e))) };>>
//@ sig
    /// S1 slice: whole body of `<Async as AsyncWrite>::poll_write`; rules R21, R22 as for poll_read.
    fn poll_write_body(slf: &mut Async<'l, F>, cx: &mut Context<'_>, buf: &[u8]) -> (r: TaskPoll<std::io::Result<usize>>)
//@ spec
        ensures
            // C17: Pending only after the operation said WouldBlock AND the task's waker has been stored with WRITE interest
            // (register_waker then re-arms the one-shot registration): no path parks the task without arranging its wake-up
            r is Pending ==> w_waker_registered(&*final(slf), Interest::WRITE, cx_waker(&*old(cx)))
                && exists|x: std::io::Result<usize>| #[trigger] w_io_returned(x) && would_block(x),
            // every other result of the operation (data, EOF, a real error) is handed to the task unchanged; the only other
            // way to Ready is a failed re-arm, reported as an error
            r matches TaskPoll::Ready(res) ==> (w_io_returned(res) && !would_block(res))
                || (res is Err && w_waker_registered(&*final(slf), Interest::WRITE, cx_waker(&*old(cx)))),
//@ endslice
//@ slice src/io.rs / impl AsyncWrite for Async<'_, F> / fn poll_write_vectored :: body props=C17 name=Async::poll_write_vectored
//@ rw R21 * <<(*self).get_mut()>> => <<slf.get_mut()>>
//@ rw R21 * <<self.register_waker(>> => <<match slf.register_waker(>>
//@ rw R22 1/1 <<)?;>> => <<) { Ok(v) => v, Err(e) => return TaskPoll::Ready(Err(std::io::Error::from(e))) };>>
//@ sig
    /// S1 slice: whole body of `<Async as AsyncWrite>::poll_write_vectored`; rules R21, R22 as for poll_read.
    fn poll_write_vectored_body(slf: &mut Async<'l, F>, cx: &mut Context<'_>, bufs: &[IoSlice<'_>]) -> (r: TaskPoll<std::io::Result<usize>>)
//@ spec
        ensures
            // C17: Pending only after the operation said WouldBlock AND the task's waker has been stored with WRITE interest
            // (register_waker then re-arms the one-shot registration): no path parks the task without arranging its wake-up
            r is Pending ==> w_waker_registered(&*final(slf), Interest::WRITE, cx_waker(&*old(cx)))
                && exists|x: std::io::Result<usize>| #[trigger] w_io_returned(x) && would_block(x),
            // every other result of the operation (data, EOF, a real error) is handed to the task unchanged; the only other
            // way to Ready is a failed re-arm, reported as an error
            r matches TaskPoll::Ready(res) ==> (w_io_returned(res) && !would_block(res))
                || (res is Err && w_waker_registered(&*final(slf), Interest::WRITE, cx_waker(&*old(cx)))),
//@ endslice
//@ slice src/io.rs / impl AsyncWrite for Async<'_, F> / fn poll_flush :: body props=C17 name=Async::poll_flush
//@ rw R21 * <<(*self).get_mut()>> => <<slf.get_mut()>>
//@ rw R21 * <<self.register_waker(>> => <<match slf.register_waker(>>
//@ rw R22 1/1 <<)?;>> => <<) { Ok(v) => v, Err(e) => return TaskPoll::Ready(Err(std::io::Error::from(e))) };>>
//@ sig
    /// S1 slice: whole body of `<Async as AsyncWrite>::poll_flush`; rules R21, R22 as for poll_read.
    fn poll_flush_body(slf: &mut Async<'l, F>, cx: &mut Context<'_>) -> (r: TaskPoll<std::io::Result<()>>)
//@ spec
        ensures
            // C17: Pending only after the operation said WouldBlock AND the task's waker has been stored with WRITE interest
            // (register_waker then re-arms the one-shot registration): no path parks the task without arranging its wake-up
            r is Pending ==> w_waker_registered(&*final(slf), Interest::WRITE, cx_waker(&*old(cx)))
                && exists|x: std::io::Result<()>| #[trigger] w_flush_returned(x) && would_block(x),
            // every other result of the operation (data, EOF, a real error) is handed to the task unchanged; the only other
            // way to Ready is a failed re-arm, reported as an error
            r matches TaskPoll::Ready(res) ==> (w_flush_returned(res) && !would_block(res))
                || (res is Err && w_waker_registered(&*final(slf), Interest::WRITE, cx_waker(&*old(cx)))),
//@ endslice
//@ slice src/io.rs / impl AsyncWrite for Async<'_, F> / fn poll_close :: body props=C17 name=Async::poll_close
//@ rw R21 * <<self.poll_flush(cx)>> => <<Self::poll_flush_body(slf, cx)>>
//@ rw R21 * <<(*self).get_mut()>> => <<slf.get_mut()>>
//@ sig
    /// S1 slice: whole body of `<Async as AsyncWrite>::poll_close`; R21: the receiver is `slf`, and the call of the trait
    /// method `poll_flush` on it is the call of that method's slice.
    fn poll_close_body(slf: &mut Async<'l, F>, cx: &mut Context<'_>) -> (r: TaskPoll<std::io::Result<()>>)
//@ spec
        ensures
            // C17: closing flushes first -- Pending only after the flush said WouldBlock and the waker is stored with WRITE
            // interest; Ready only with the flush's own result (nothing buffered is dropped silently) or a failed re-arm
            r is Pending ==> w_waker_registered(&*final(slf), Interest::WRITE, cx_waker(&*old(cx)))
                && exists|x: std::io::Result<()>| #[trigger] w_flush_returned(x) && would_block(x),
            r matches TaskPoll::Ready(res) ==> (w_flush_returned(res) && !would_block(res))
                || (res is Err && w_waker_registered(&*final(slf), Interest::WRITE, cx_waker(&*old(cx)))),
//@ endslice
}

impl<'l, F: AsFd> Async<'l, F> {
//@ slice src/io.rs / impl Async<'l, F> / fn into_inner :: body props=C17 name=Async::into_inner
//@ rw R21 * <<self.fd.take()>> => <<slf.fd.take()>>
//@ sig
    /// S1 slice: whole body of Async::into_inner. R21 (here for a by-value `mut self`, which Verus does not support): the
    /// receiver becomes `slf: &mut Async`; what is left of the adapter is dropped when the real function returns -- that is
    /// the slice Async::drop (which restores the blocking mode through the raw fd kept in the dispatcher, not through `fd`).
    fn into_inner_body(slf: &mut Async<'l, F>) -> (r: F)
//@ spec
        requires old(slf).fd is Some,
        ensures
            // C17: the object handed back is the adapter's own, and the adapter no longer owns one
            Some(r) == old(slf).fd, final(slf).fd is None,
            final(slf).dispatcher == old(slf).dispatcher, final(slf).inner == old(slf).inner, final(slf).was_nonblocking == old(slf).was_nonblocking,
//@ endslice
//@ slice src/io.rs / impl Async<'l, F> / fn readiness :: body props=C17 name=Async::readiness
//@ rw R10 * <<self.dispatcher.borrow_mut()>> => <<disp_cell>>
//@ sig
    /// S1 slice: whole body of Async::readiness; R10: the borrow of the adapter's IoDispatcher cell becomes `disp_cell`.
    fn readiness_body(&self, disp_cell: &mut IoDispatcher) -> (r: Readiness)
//@ spec
        ensures r == old(disp_cell).last_readiness, final(disp_cell).last_readiness == Readiness::EMPTY,
                final(disp_cell).waker == old(disp_cell).waker, final(disp_cell).interest == old(disp_cell).interest,
//@ endslice

//@ slice src/io.rs / impl std::future::Future for Readable<'_, '_, F> / fn poll :: after <<let io = &mut self.as_mut().io;>> props=C17 name=Readable::poll
//@ sig
    /// S1 slice of `<Readable as Future>::poll`: everything after the projection `let io = &mut self.as_mut().io;` (Pin is
    /// outside what Verus accepts); `io` and `cx` become parameters.
    fn readable_poll_body(io: &mut Async<'l, F>, cx: &mut Context<'_>) -> (r: TaskPoll<()>)
//@ spec
        ensures
            // C17: the future resolves only on readiness taken from the adapter at THIS poll that says readable or error ...
            r is Ready ==> exists|rd: Readiness| #[trigger] w_readiness_taken(&*final(io), rd) && (rd.readable || rd.error),
            // ... and otherwise the task's own waker has been stored with READ interest (and the registration re-armed: see
            // register_waker) before Pending is returned -- no path returns Pending without arranging the wake-up
            r is Pending ==> w_waker_registered(&*final(io), Interest::READ, cx_waker(&*old(cx))),
//@ endslice

//@ slice src/io.rs / impl std::future::Future for Writable<'_, '_, F> / fn poll :: after <<let io = &mut self.as_mut().io;>> props=C17 name=Writable::poll
//@ sig
    /// S1 slice of `<Writable as Future>::poll`, as for Readable.
    fn writable_poll_body(io: &mut Async<'l, F>, cx: &mut Context<'_>) -> (r: TaskPoll<()>)
//@ spec
        ensures
            r is Ready ==> exists|rd: Readiness| #[trigger] w_readiness_taken(&*final(io), rd) && (rd.writable || rd.error),
            r is Pending ==> w_waker_registered(&*final(io), Interest::WRITE, cx_waker(&*old(cx))),
//@ endslice

//@ slice src/io.rs / impl Async<'l, F> / fn new :: stmts <<let was_nonblocking = set_nonblocking(>> .. <<let was_nonblocking = set_nonblocking(>> props=C17 name=Async::new::nonblocking_step
//@ sig
    /// S1 slice of Async::new: its first statement (the switch to non-blocking mode; D3 drops the windows argument).
    fn new_nonblocking_step(fd: &F) -> (r: crate::Result<bool>)
//@ spec
        requires
            // C17 (may-call side): creating the adapter may only install the current flag word with O_NONBLOCK switched ON
            forall|d: int, f: crate::rustix::fs::OFlags| #[trigger] crate::rustix::fs::may_setfl(d, f) <==> (
                d == crate::ext::fd_raw(fd) && f == with_nonblock(crate::rustix::fs::flags_of(d), true) && f != crate::rustix::fs::flags_of(d)),
        ensures
            // C17: what is remembered for Drop / into_inner is the mode the fd had BEFORE, and the fd is non-blocking now
            r matches Ok(was) ==> {
                &&& was == is_nonblock(crate::rustix::fs::flags_of(crate::ext::fd_raw(fd)))
                &&& !was ==> crate::rustix::fs::w_setfl(crate::ext::fd_raw(fd), with_nonblock(crate::rustix::fs::flags_of(crate::ext::fd_raw(fd)), true))
            },
//@ entry
        proof { broadcast use crate::ext::axiom_fd_raw_ref; }
//@ tail
        Ok(was_nonblocking)
//@ endslice

//@ slice src/io.rs / impl Async<'l, F> / fn new :: stmts <<{ let mut sources = inner.sources.borrow_mut();>> .. <<{ let mut sources = inner.sources.borrow_mut();>> props=C01,C06,C17,C15,C16 name=Async::new::slot_step
//@ rw R10 * <<inner.sources.borrow_mut()>> => <<sources_cell>>
//@ rw R10 * <<dispatcher.borrow_mut()>> => <<disp_cell>>
//@ rw R15 1 <<Some(dispatcher.clone())>> => <<Some(unsize_io_dispatcher::<Data>(dispatcher.clone()))>>
//@ sig
    /// S1 slice of Async::new: the block that takes a slot of the loop's source list for the adapter. R10: the two RefCell
    /// borrows become `sources_cell` / `disp_cell`; R15: the implicit unsizing coercion of the dispatcher Rc is an identity
    /// stand-in.
    fn new_slot_step<Data>(sources_cell: &mut SourceList<'l, Data>, dispatcher: Rc<RefCell<IoDispatcher>>, disp_cell: &mut IoDispatcher)
//@ spec
        requires old(sources_cell).wf(), old(sources_cell)@.len() < 0x1_0000_0000,
        ensures
            final(sources_cell).wf(),
            // C01/C17: the adapter remembers exactly the token of the slot it was put in (events for that token reach this
            // dispatcher, nothing else does); the slot was vacant or new; every other slot is untouched
            final(disp_cell).token matches Some(t) && {
                &&& t.inner.ssub() == 0
                &&& final(sources_cell).lookup(t.inner) == Some(t.inner.sid())
                &&& final(sources_cell)@[t.inner.sid()].disp() == Some(unsize_io_dispatcher_spec::<Data>(dispatcher))
                &&& (t.inner.sid() < old(sources_cell)@.len() ==> old(sources_cell)@[t.inner.sid()].vacant())
                &&& forall|i: int| 0 <= i < old(sources_cell)@.len() && i != t.inner.sid() ==> #[trigger] final(sources_cell)@[i] == old(sources_cell)@[i]
            },
            final(disp_cell).fd == old(disp_cell).fd, final(disp_cell).is_registered == old(disp_cell).is_registered,
            final(disp_cell).interest == old(disp_cell).interest, final(disp_cell).last_readiness == old(disp_cell).last_readiness,
//@ endslice

//@ slice src/io.rs / impl Async<'l, F> / fn new :: stmts <<let dispatcher = Rc::new(RefCell::new(IoDispatcher {>> .. <<let dispatcher = Rc::new(RefCell::new(IoDispatcher {>> props=C17,C16 name=Async::new::dispatcher_init
//@ sig
    /// S1 slice of Async::new: the statement that builds the adapter's dispatcher (D3 drops the windows field initialiser).
    fn new_dispatcher_init(fd: &F) -> (r: Rc<RefCell<IoDispatcher>>)
//@ spec
        ensures
            // C16/C17: a fresh adapter watches exactly the wrapped object's descriptor, is not yet registered, waits for
            // nothing, has no stored waker and no recorded readiness
            ({
                let d = crate::ext::refcell_init(&*r);
                &&& d.fd as int == crate::ext::fd_raw(fd)
                &&& d.token is None && d.waker is None && !d.is_registered
                &&& d.interest == Interest::EMPTY && d.last_readiness == Readiness::EMPTY
            }),
//@ entry
        proof { broadcast use crate::ext::axiom_fd_raw_ref; }
//@ tail
        dispatcher
//@ endslice

//@ slice src/io.rs / impl Async<'l, F> / fn new :: stmts <<if let Err(err) = unsafe { inner.register(&dispatcher) }>> ..< <<let inner: Rc<dyn IoLoopInner + 'l> =>> props=C15,C16,C17 name=Async::new::register_step
//@ rw R10 * <<dispatcher.borrow_mut()>> => <<disp_cell>>
//@ sig
    /// S1 slice of Async::new: the statement that registers the freshly built dispatcher and cleans up if that fails,
    /// and the one that records a successful registration. Free variables `inner`, `dispatcher`, `fd`, `was_nonblocking`
    /// become parameters; R10: `dispatcher.borrow_mut()` becomes `disp_cell`. (The statements before and after are the other
    /// Async::new slices; the only statement of Async::new under no contract is the transmute that erases `Data`.)
    fn new_register_step<Data>(inner: Rc<LoopInner<'l, Data>>, dispatcher: Rc<RefCell<IoDispatcher>>, disp_cell: &mut IoDispatcher, fd: F, was_nonblocking: bool) -> (r: crate::Result<()>)
//@ spec
        requires
            // C15 (may-call side): the only flag word the failure path may install is the one that puts O_NONBLOCK back
            forall|d: int, f: crate::rustix::fs::OFlags| #[trigger] crate::rustix::fs::may_setfl(d, f) <==> (
                d == crate::ext::fd_raw(&fd) && f == with_nonblock(crate::rustix::fs::flags_of(d), was_nonblocking) && f != crate::rustix::fs::flags_of(d)),
        ensures
            // C15: if registering the fd fails the adapter's slot is given back to the loop (kill vacates it; it does not touch
            // the poller because the adapter is not marked registered) before the error is returned: the loop is as if
            // adapt_io had not been called
            r is Err ==> inner.w_killed(&*dispatcher) && final(disp_cell).is_registered == old(disp_cell).is_registered,
            // C16: a successful registration is recorded, so that kill() will take the fd out of the poller again
            r is Ok ==> final(disp_cell).is_registered,
//@ entry
        proof { broadcast use crate::ext::axiom_fd_raw_ref; }
//@ tail
        Ok(())
//@ endslice

//@ slice src/io.rs / impl Async<'l, F> / fn new :: after <<let inner: Rc<dyn IoLoopInner + 'l> =>> props=C17 name=Async::new::result
//@ sig
    /// S1 slice of Async::new: its result expression (after the transmute that erases `Data`, which is dropped).
    fn new_result(fd: F, dispatcher: Rc<RefCell<IoDispatcher>>, inner: Rc<dyn IoLoopInner + 'l>, was_nonblocking: bool) -> (r: crate::Result<Async<'l, F>>)
//@ spec
        ensures
            // C17: the adapter remembers the blocking mode the fd had BEFORE (what Drop / into_inner restore), its own
            // dispatcher and loop, and owns the object
            r matches Ok(a) && a.was_nonblocking == was_nonblocking && a.dispatcher == dispatcher && a.inner == inner && a.fd == Some(fd),
//@ endslice

//@ slice src/io.rs / impl Drop for Async<'_, F> / fn drop :: body props=C16,C17 name=Async::drop
//@ rw R10 * <<self.dispatcher.borrow()>> => <<disp_cell>>
//@ sig
    /// S1 slice: the whole body of `impl Drop for Async` (runs on drop AND at the end of into_inner), lifted into an
    /// ordinary method; R10: the borrow of the adapter's IoDispatcher cell becomes `disp_cell`.
    fn async_drop_body(&mut self, disp_cell: &IoDispatcher)
//@ spec
        requires
            // C17 (may-call side): the only flag word Drop may install is the current one with O_NONBLOCK put back to what it
            // was before the adapter was created
            forall|d: int, f: crate::rustix::fs::OFlags| #[trigger] crate::rustix::fs::may_setfl(d, f) <==> (
                d == disp_cell.fd as int && f == with_nonblock(crate::rustix::fs::flags_of(d), old(self).was_nonblocking) && f != crate::rustix::fs::flags_of(d)),
        ensures
            // C16: the adapter has been taken out of the loop (slot vacated and fd deleted from the poller: see kill)
            old(self).inner.w_killed(&*old(self).dispatcher),
//@ endslice

//@ slice src/io.rs / impl Async<'l, F> / fn register_waker :: body props=C17 name=Async::register_waker
//@ rw R10 * <<self.dispatcher.borrow_mut()>> => <<disp_cell>>
//@ sig
    /// S1 slice: whole body of Async::register_waker (what a poll that hit WouldBlock does); R10 as above.
    fn register_waker_body(&self, disp_cell: &mut IoDispatcher, interest: Interest, waker: Waker) -> (r: crate::Result<()>)
//@ spec
        ensures
            // C17: the task's waker and the interest it waits for are stored BEFORE the one-shot registration is re-armed
            final(disp_cell).interest == interest, final(disp_cell).waker == Some(waker),
            final(disp_cell).fd == old(disp_cell).fd, final(disp_cell).token == old(disp_cell).token,
            r is Ok ==> self.inner.w_rearmed(&*self.dispatcher),
//@ endslice
}
