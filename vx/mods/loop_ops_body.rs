//@ region loop_ops_specs props=C06,C07,C09,C14,C15,C01,C16
/// frame used by all four token operations: entries of the lifecycle set belonging to other sources are untouched,
/// the set stays duplicate free, and the only entry that may appear is `own`
pub(crate) open spec fn extra_frame(o: &AdditionalLifecycleEventsSet, n: &AdditionalLifecycleEventsSet, own: RegistrationToken) -> bool {
    &&& o@.no_duplicates() ==> n@.no_duplicates()
    &&& forall|x: RegistrationToken| x != own ==> (#[trigger] n@.contains(x) <==> o@.contains(x))
}
/// the event processing of the source registered under `t` is in progress: the only time at which a request parked in the
/// loop-wide deferred-action cell will be picked up for THAT source (the per-event body reads the cell right after the
/// source's process_events returns). Nothing in the crate records this, so nothing can establish it (defect F13).
pub uninterp spec fn own_processing_in_progress(t: RegistrationToken) -> bool;
//@ endregion

//@ region insert_source_specs props=C15,C01
/// monotone history witness: register_dispatcher(d) has been called and answered `r`
pub uninterp spec fn w_reg_disp<'l, S, Data>(d: crate::sources::Dispatcher<'l, S, Data>, r: crate::Result<RegistrationToken>) -> bool;
//@ endregion
//@ open src/loop_logic.rs / impl LoopHandle<'l, Data>
//@ item src/loop_logic.rs / impl LoopHandle<'l, Data> / fn register_dispatcher props=C15 sigonly ret=r
//@ spec
        // (witness only; what the function does to the slot list is the slice LoopHandle::register_dispatcher::after_borrows)
        ensures w_reg_disp(dispatcher, r),
//@ enditem
//@ item src/loop_logic.rs / impl LoopHandle<'l, Data> / fn insert_source props=C15,C01 ret=r
//@ closure <<|error| InsertError { error, inserted: dispatcher.into_source_inner(), }>>
-> (ie: InsertError<S>) ensures ie.error == error && ie.inserted == crate::sources::disp_source(&dispatcher)
//@ spec
        ensures
            // the token handed out is the one register_dispatcher answered for a dispatcher built from exactly this source
            // (which takes part in the lifecycle hooks iff its type opted in) ...
            r matches Ok(t) ==> exists|d: crate::sources::Dispatcher<'l, S, Data>, r0: crate::Result<RegistrationToken>| #[trigger] w_reg_disp(d, r0)
                && crate::sources::disp_source(&d) == source && crate::sources::disp_opted_in(&d) == S::NEEDS_EXTRA_LIFECYCLE_EVENTS
                && r0 == Ok::<RegistrationToken, crate::Error>(t),
            // C15: ... and a failed insertion hands the source back together with the error of that registration
            r matches Err(ie) ==> ie.inserted == source && exists|d: crate::sources::Dispatcher<'l, S, Data>, r0: crate::Result<RegistrationToken>| #[trigger] w_reg_disp(d, r0)
                && crate::sources::disp_source(&d) == source && r0 == Err::<RegistrationToken, crate::Error>(ie.error),
//@ enditem
//@ close
impl<'l, Data> LoopHandle<'l, Data> {
// --------------------------------------------------------------------------------------------------------------
// LoopHandle::{enable, update, disable, remove}: the WHOLE body of each function is lifted (rule S1, selector
// `body`); rule R10 replaces each RefCell borrow expression of a loop cell by the reference it dereferences to,
// passed as a parameter (the dynamic borrow check itself is C08 territory and is dropped); rule R9 replaces the
// reference patterns `&SourceEntry { .. ref source }` Verus does not support by the equivalent default-binding-mode
// pattern (by-copy bindings get an explicit `*`).
// --------------------------------------------------------------------------------------------------------------
//@ slice src/loop_logic.rs / impl LoopHandle<'l, Data> / fn enable :: body props=C07,C06,C14,C15,C01,C16 name=LoopHandle::enable
//@ rw R9 1 <<if let &SourceEntry {>> => <<if let SourceEntry {>>
//@ rw R9 1 <<source: Some(ref source),>> => <<source: Some(source),>>
//@ rw R9 1 <<TokenFactory::new(entry_token)>> => <<TokenFactory::new(*entry_token)>>
//@ rw R10 1 <<self.inner.sources.borrow()>> => <<sources>>
//@ rw R10 1 <<self.inner.poll.borrow_mut()>> => <<(*poll)>>
//@ rw R10 * <<self .inner .sources_with_additional_lifecycle_events .borrow_mut()>> => <<(*extra)>>
//@ sig
fn enable_body(&self, sources: &SourceList<'l, Data>, poll: &mut Poll, extra: &mut AdditionalLifecycleEventsSet, token: &RegistrationToken) -> (r: crate::Result<()>)
//@ spec
    requires
        sources.wf(), token.tok().ssub() == 0, all_accept::<Data>(),
    ensures
        extra_frame(old(extra), final(extra), *token),
        match sources.lookup(token.tok()) {
            // C06: a dead token (slot reused or out of range) is rejected and nothing is touched
            None => r is Err && r->Err_0 is InvalidToken && final(extra)@ == old(extra)@,
            Some(i) => match sources@[i].disp() {
                // C06: so is the token of a removed source whose slot has not been reused yet
                None => r is Err && r->Err_0 is InvalidToken && final(extra)@ == old(extra)@,
                // C07: enable() registers the source of that slot again, under the very same registration token
                Some(d) => {
                    &&& r is Ok ==> d.w_registered(*token)
                    // C15: a failing enable returns its error and leaves the lifecycle set alone
                    &&& r is Err ==> final(extra)@ == old(extra)@
                },
            },
        },
//@ entry
    proof {
        // the slot token of the addressed slot, sub-id cleared, IS the user's registration token (hint over parameters only)
        broadcast use TokenInner::lemma_forget, TokenInner::lemma_forget_idem, RegistrationToken::lemma_of;
        token.lemma_of_tok();
        if sources.lookup(token.tok()) is Some {
            TokenInner::lemma_ext(sources@[token.tok().sid()].tok().forget(), token.tok());
        }
    }
//@ endslice

//@ slice src/loop_logic.rs / impl LoopHandle<'l, Data> / fn update :: body props=C09,C06,C14,C15,C01 name=LoopHandle::update
//@ rw R9 1 <<if let &SourceEntry {>> => <<if let SourceEntry {>>
//@ rw R9 1 <<source: Some(ref source),>> => <<source: Some(source),>>
//@ rw R9 1 <<TokenFactory::new(entry_token)>> => <<TokenFactory::new(*entry_token)>>
//@ rw R10 1 <<self.inner.sources.borrow()>> => <<sources>>
//@ rw R10 1 <<self.inner.poll.borrow_mut()>> => <<(*poll)>>
//@ rw R10 * <<self .inner .sources_with_additional_lifecycle_events .borrow_mut()>> => <<(*extra)>>
//@ sig
fn update_body(&self, sources: &SourceList<'l, Data>, poll: &mut Poll, extra: &mut AdditionalLifecycleEventsSet, token: &RegistrationToken) -> (r: crate::Result<()>)
//@ spec
    requires
        sources.wf(), token.tok().ssub() == 0, all_accept::<Data>(),
        // C09 (may-call side): the loop-global deferred-action cell may be written here only with Reregister, and only
        // when the addressed source has just answered "being dispatched, cannot do it now"
        forall|v: PostAction| #[trigger] crate::ext::cell_set_allowed(&self.inner.pending_action, v) <==> {
            &&& v == PostAction::Reregister
            &&& sources.lookup(token.tok()) matches Some(i) && (sources@[i].disp() matches Some(d) && d.w_deferred())
        },
    ensures
        extra_frame(old(extra), final(extra), *token),
        match sources.lookup(token.tok()) {
            None => r is Err && r->Err_0 is InvalidToken && final(extra)@ == old(extra)@,
            Some(i) => match sources@[i].disp() {
                None => r is Err && r->Err_0 is InvalidToken && final(extra)@ == old(extra)@,
                // C09 (must-call side): update() returns Ok only after the source of that slot was re-registered under
                // the same token, or after the request was parked in the deferred-action cell as Reregister
                Some(d) => {
                    &&& r is Ok ==> d.w_reregistered(*token) || (d.w_deferred() && crate::ext::cell_was_set(&self.inner.pending_action, PostAction::Reregister))
                    &&& r is Err ==> final(extra)@ == old(extra)@
                },
            },
        },
//@ entry
    proof {
        // the slot token of the addressed slot, sub-id cleared, IS the user's registration token (hint over parameters only)
        broadcast use TokenInner::lemma_forget, TokenInner::lemma_forget_idem, RegistrationToken::lemma_of;
        token.lemma_of_tok();
        if sources.lookup(token.tok()) is Some {
            TokenInner::lemma_ext(sources@[token.tok().sid()].tok().forget(), token.tok());
        }
    }
//@ endslice

//@ slice src/loop_logic.rs / impl LoopHandle<'l, Data> / fn disable :: body props=C07,C09,C06,C14,C15,C01,C16 name=LoopHandle::disable
//@ rw R9 1 <<if let &SourceEntry {>> => <<if let SourceEntry {>>
//@ rw R9 1 <<source: Some(ref source),>> => <<source: Some(source),>>
//@ rw R9 1 <<same_source_as(entry_token)>> => <<same_source_as(*entry_token)>>
//@ rw R10 1 <<self.inner.sources.borrow()>> => <<sources>>
//@ rw R10 1 <<self.inner.poll.borrow_mut()>> => <<(*poll)>>
//@ rw R10 * <<self .inner .sources_with_additional_lifecycle_events .borrow_mut()>> => <<(*extra)>>
//@ sig
fn disable_body(&self, sources: &SourceList<'l, Data>, poll: &mut Poll, extra: &mut AdditionalLifecycleEventsSet, token: &RegistrationToken) -> (r: crate::Result<()>)
//@ spec
    requires
        sources.wf(), token.tok().ssub() == 0, all_accept::<Data>(),
        forall|v: PostAction| #[trigger] crate::ext::cell_set_allowed(&self.inner.pending_action, v) <==> {
            &&& v == PostAction::Disable
            &&& sources.lookup(token.tok()) matches Some(i) && (sources@[i].disp() matches Some(d) && d.w_deferred())
        },
    ensures
        extra_frame(old(extra), final(extra), *token),
        // nothing can be ADDED to the lifecycle set by a disable
        forall|x: RegistrationToken| final(extra)@.contains(x) ==> old(extra)@.contains(x),
        match sources.lookup(token.tok()) {
            None => r is Err && r->Err_0 is InvalidToken && final(extra)@ == old(extra)@,
            Some(i) => match sources@[i].disp() {
                None => r is Err && r->Err_0 is InvalidToken && final(extra)@ == old(extra)@,
                // C07: disable() returns Ok only after the source of that slot was unregistered (its own token), or
                // after the request was parked as Disable because the source is being dispatched
                Some(d) => {
                    &&& r is Ok ==> d.w_unregistered(*token) || (d.w_deferred() && crate::ext::cell_was_set(&self.inner.pending_action, PostAction::Disable))
                    &&& r is Err ==> final(extra)@ == old(extra)@
                },
            },
        },
//@ endslice

// C09 ("no post-action is ever applied to a different source or carried over to a later event"), second view of update()
// and disable(): the deferred-action cell may be written only while the addressed source's own event processing is in
// progress. The code parks the request whenever the dispatcher answers "borrowed" -- also when the source is merely
// borrowed through Dispatcher::as_source_mut(), from its own before_sleep, or from another source's callback that holds
// such a borrow: the request is then applied to whichever source returns Continue next. Known finding F13.
//@ slice src/loop_logic.rs / impl LoopHandle<'l, Data> / fn update :: body props=C09 name=LoopHandle::update::parks_only_during_own_processing
//@ rw R9 1 <<if let &SourceEntry {>> => <<if let SourceEntry {>>
//@ rw R9 1 <<source: Some(ref source),>> => <<source: Some(source),>>
//@ rw R9 1 <<TokenFactory::new(entry_token)>> => <<TokenFactory::new(*entry_token)>>
//@ rw R10 1 <<self.inner.sources.borrow()>> => <<sources>>
//@ rw R10 1 <<self.inner.poll.borrow_mut()>> => <<(*poll)>>
//@ rw R10 * <<self .inner .sources_with_additional_lifecycle_events .borrow_mut()>> => <<(*extra)>>
//@ sig
fn update_parks_body(&self, sources: &SourceList<'l, Data>, poll: &mut Poll, extra: &mut AdditionalLifecycleEventsSet, token: &RegistrationToken) -> (r: crate::Result<()>)
//@ spec
    requires
        sources.wf(), token.tok().ssub() == 0, all_accept::<Data>(),
        forall|v: PostAction| #[trigger] crate::ext::cell_set_allowed(&self.inner.pending_action, v) <==> {
            &&& v == PostAction::Reregister
            &&& sources.lookup(token.tok()) matches Some(i) && (sources@[i].disp() matches Some(d) && d.w_deferred())
            &&& own_processing_in_progress(*token)
        },
//@ endslice
//@ slice src/loop_logic.rs / impl LoopHandle<'l, Data> / fn disable :: body props=C09,C07 name=LoopHandle::disable::parks_only_during_own_processing
//@ rw R9 1 <<if let &SourceEntry {>> => <<if let SourceEntry {>>
//@ rw R9 1 <<source: Some(ref source),>> => <<source: Some(source),>>
//@ rw R9 1 <<same_source_as(entry_token)>> => <<same_source_as(*entry_token)>>
//@ rw R10 1 <<self.inner.sources.borrow()>> => <<sources>>
//@ rw R10 1 <<self.inner.poll.borrow_mut()>> => <<(*poll)>>
//@ rw R10 * <<self .inner .sources_with_additional_lifecycle_events .borrow_mut()>> => <<(*extra)>>
//@ sig
fn disable_parks_body(&self, sources: &SourceList<'l, Data>, poll: &mut Poll, extra: &mut AdditionalLifecycleEventsSet, token: &RegistrationToken) -> (r: crate::Result<()>)
//@ spec
    requires
        sources.wf(), token.tok().ssub() == 0, all_accept::<Data>(),
        forall|v: PostAction| #[trigger] crate::ext::cell_set_allowed(&self.inner.pending_action, v) <==> {
            &&& v == PostAction::Disable
            &&& sources.lookup(token.tok()) matches Some(i) && (sources@[i].disp() matches Some(d) && d.w_deferred())
            &&& own_processing_in_progress(*token)
        },
//@ endslice

//@ slice src/loop_logic.rs / impl LoopHandle<'l, Data> / fn remove :: body props=C06,C14,C01,C16 name=LoopHandle::remove
//@ rw R9 1 <<if let Ok(&mut SourceEntry {>> => <<if let Ok(SourceEntry {>>
//@ rw R9 1 <<ref mut source,>> => <<source,>>
//@ rw R10 1 <<self.inner.sources.borrow_mut()>> => <<sources>>
//@ rw R10 1 <<self.inner.poll.borrow_mut()>> => <<(*poll)>>
//@ rw R10 * <<self .inner .sources_with_additional_lifecycle_events .borrow_mut()>> => <<(*extra)>>
//@ sig
fn remove_body(&self, sources: &mut SourceList<'l, Data>, poll: &mut Poll, extra: &mut AdditionalLifecycleEventsSet, token: RegistrationToken)
//@ spec
    requires
        old(sources).wf(), token.tok().ssub() == 0, all_accept::<Data>(),
    ensures
        final(sources).wf(), final(sources)@.len() == old(sources)@.len(),
        extra_frame(old(extra), final(extra), token),
        forall|x: RegistrationToken| final(extra)@.contains(x) ==> old(extra)@.contains(x),
        match old(sources).lookup(token.tok()) {
            // C06: remove with a dead token is a no-op: no slot, no lifecycle entry changes
            None => final(sources)@ == old(sources)@ && final(extra)@ == old(extra)@,
            Some(i) => {
                // C06: the addressed slot is vacant afterwards and keeps its id/generation (the generation is only
                // bumped at reuse), every other slot is untouched ...
                &&& final(sources)@[i].vacant()
                &&& final(sources)@[i].tok() == old(sources)@[i].tok()
                &&& forall|k: int| 0 <= k < old(sources)@.len() && k != i ==> #[trigger] final(sources)@[k] == old(sources)@[k]
                // ... and the dispatcher taken out of it has been asked to unregister under exactly this token
                &&& old(sources)@[i].disp() matches Some(d) ==> d.w_unregister_called(token)
                // C14/C15: the slot is vacated whatever the unregistration said, so the lifecycle entry must not outlive it:
                // either the dispatcher confirmed the unregistration (then the dispatcher layer has dealt with its entry), or
                // it deferred it (the source is being dispatched: the per-event body finishes the job), or -- if it FAILED --
                // the entry has been dropped here; otherwise the next dispatch would reach `unreachable!()` (defect F11)
                &&& old(sources)@[i].disp() matches Some(d) ==> (!final(extra)@.contains(token) || d.w_unregistered(token) || d.w_deferred())
                &&& old(sources)@[i].vacant() ==> final(extra)@ == old(extra)@
            },
        },
//@ endslice
// the four operations as callable items (signature-only; their bodies are proved above as slices): lets a caller inside the
// unit -- e.g. an edited dispatch_events that goes through the handle -- be type-checked; nothing is assumed about them
//@ item src/loop_logic.rs / impl LoopHandle<'l, Data> / fn enable props=C07 sigonly ret=r
//@ enditem
//@ item src/loop_logic.rs / impl LoopHandle<'l, Data> / fn update props=C09 sigonly ret=r
//@ enditem
//@ item src/loop_logic.rs / impl LoopHandle<'l, Data> / fn disable props=C07 sigonly ret=r
//@ enditem
//@ item src/loop_logic.rs / impl LoopHandle<'l, Data> / fn remove props=C06 sigonly
//@ enditem
}
