pub mod stream {
use vstd::prelude::*;
use crate::futures_core::Stream;
use std::{sync::Arc, task::{Context, Waker}};
use crate::{ping::{make_ping, Ping, PingError, PingSource}, EventSource, Poll, PostAction, Readiness, Token, TokenFactory};
//@ include stream_body
} // mod stream
