//@ region ping_write_specs props=C03
/// the eight bytes send_ping writes for `count` (native endianness), as a function
pub uninterp spec fn ne_bytes(count: u64) -> Seq<u8>;
/// stand-in for `u64::to_ne_bytes` (rule R17: its return type `[u8; size_of::<u64>()]` cannot be named in an
/// assume_specification). ASSUMED: it is that function.
#[verifier::external_body]
fn u64_to_ne_bytes(x: u64) -> (r: [u8; 8])
    ensures r@ == ne_bytes(x),
{ x.to_ne_bytes() }
/// may-call side for send_ping (a verification device, DESIGN 2.12): which increments may be written to which eventfd
pub uninterp spec fn may_send(fd: int, count: u64) -> bool;
//@ endregion

//@ item src/sources/ping/eventfd.rs / fn send_ping props=C03,C04,C10 ret=r
//@ rw R17 * <<count.to_ne_bytes()>> => <<u64_to_ne_bytes(count)>>
//@ spec
    requires
        count > 0,
        may_send(crate::ext::fd_raw(&fd), count),
        crate::rustix::io::may_write(crate::ext::fd_raw(&fd), ne_bytes(count)),
    ensures
        // the increment -- exactly `count`, nothing else -- has been written to this eventfd (must-call witness); a
        // saturated counter (EAGAIN) is not an error: the source is readable anyway
        crate::rustix::io::w_write_called(crate::ext::fd_raw(&fd), ne_bytes(count)),
//@ enditem

//@ item src/sources/ping/eventfd.rs / struct Ping props=C03
//@ enditem
//@ item src/sources/ping/eventfd.rs / struct FlagOnDrop props=C03
//@ enditem
//@ region ping_handle_specs props=C03
impl Ping {
    /// the eventfd this handle writes to (ghost)
    pub closed spec fn raw(&self) -> int { crate::ext::fd_raw(&self.event.0) }
}
impl FlagOnDrop {
    pub closed spec fn raw(&self) -> int { crate::ext::fd_raw(&self.0) }
}
//@ endregion
//@ open src/sources/ping/eventfd.rs / impl Ping
//@ item src/sources/ping/eventfd.rs / impl Ping / fn ping props=C03,C04,C10
//@ spec
        requires
            // C03 (may-call side): a ping may only ever add INCREMENT_PING (2) to its own eventfd: the close bit (1) is never
            // touched by a ping, and pings accumulate in the bits above it
            // (a permission, not an equivalence: the may_* predicates are uninterpreted, so a body can only ever use the
            // permissions its precondition hands it -- a caller that pins its own permission set with `<==>` satisfies this)
            may_send(self.raw(), 2),
            crate::rustix::io::may_write(self.raw(), ne_bytes(2)),
        ensures
            // C03 (must-call side): ping() has written the increment before it returns
            crate::rustix::io::w_write_called(self.raw(), ne_bytes(2)),
//@ enditem
//@ close
impl FlagOnDrop {
//@ slice src/sources/ping/eventfd.rs / impl Drop for FlagOnDrop / fn drop :: body props=C03 name=FlagOnDrop::drop
//@ sig
    /// S1 slice: the whole body of `impl Drop for FlagOnDrop` as an ordinary method (a Drop impl must be
    /// `opens_invariants none / no_unwind` for Verus, which the callees do not declare).
    fn drop_body(&mut self)
//@ spec
        requires
            forall|f: int, c: u64| #[trigger] may_send(f, c) <==> (f == old(self).raw() && c == 1),
            forall|f: int, b: Seq<u8>| #[trigger] crate::rustix::io::may_write(f, b) <==> (f == old(self).raw() && b == ne_bytes(1)),
        ensures
            // C03: the guard shared by all handles writes the close marker INCREMENT_CLOSE (1) -- once, when it is dropped
            crate::rustix::io::w_write_called(old(self).raw(), ne_bytes(1)),
//@ endslice
}

//@ item src/sources/ping/eventfd.rs / fn make_ping props=C03,C16,C04,C10 ret=r
//@ spec
    ensures
        r matches Ok(ps) ==> {
            // C03: the handle writes to the very eventfd the source polls ...
            &&& ps.0.raw() == ps.1.inner().raw()
            &&& ps.0.raw() == ps.1.raw()
            // ... which is registered for READ, LEVEL-triggered: an undrained counter (a ping that arrived while an earlier
            // batch was abandoned, or during the callback) is reported again by the next wait -- no lost wake-up
            &&& ps.1.inner().want_mode() is Level
            &&& ps.1.inner().want_interest() == Interest::READ
            // ... and starts with an EMPTY counter (neither a ping nor the close marker pending: a fresh source is not born
            // "pinged" or "closed"), non-blocking (the drain in process_events must never block the loop) and close-on-exec
            &&& crate::rustix::event::evfd_initval(ps.0.raw()) == 0
            &&& crate::rustix::event::evfd_flags(ps.0.raw()).bits & 0x800 == 0x800
            &&& crate::rustix::event::evfd_flags(ps.0.raw()).bits & 0x80000 == 0x80000
        },
//@ entry
    proof {
        broadcast use axiom_arcasfd_fd, crate::ext::axiom_fd_raw_arc;
        assert((0x80000u32 | 0x800u32) & 0x800u32 == 0x800u32) by (bit_vector);
        assert((0x80000u32 | 0x800u32) & 0x80000u32 == 0x80000u32) by (bit_vector);
    }
//@ enditem
