//@ region prelude_core
// Stand-ins shared by all units (DESIGN 2.3). Nothing here is calloop code.
#[allow(unused_macros)]
macro_rules! trace { ($($t:tt)*) => { () } }
#[allow(unused_macros)]
macro_rules! warn { ($($t:tt)*) => { () } }
