pub mod loop_logic {
use vstd::prelude::*;
use std::slice;
use crate::sys::PollEvent;
use crate::token::TokenInner;
//@ include regtoken_body
} // mod loop_logic
pub use crate::loop_logic::RegistrationToken;
pub mod sys {
use vstd::prelude::*;
use crate::polling::{self, Event, PollMode};
use crate::token::TokenInner;
use crate::RegistrationToken;
//@ include sys_tokens_body
} // mod sys
pub use crate::sys::{Interest, Mode, Readiness, Token, TokenFactory};
pub mod sources {
pub mod timer {
use vstd::prelude::*;
use vstd::multiset::Multiset;
use std::{cell::RefCell, collections::BinaryHeap, rc::Rc, time::{Duration, Instant}};
#[allow(unused_imports)] use std::collections::*;   // (not in the real file: lets an edited TimerWheel mention other std collections)
use std::cmp::Ordering;
use crate::ext_time::*;
use crate::{Readiness, Token, TokenFactory};
//@ include timer_types_body
//@ include timer_wheel_body
} // mod timer
} // mod sources
