//@ item src/sources/mod.rs / trait ErasedDispatcher props=C06
//@ pre
#[verifier::external]
//@ enditem
//@ item src/sources/mod.rs / struct Dispatcher props=C06
//@ pre
#[verifier::external_body]
#[verifier::reject_recursive_types(S)]
#[verifier::reject_recursive_types(Data)]
//@ enditem
//@ open src/sources/mod.rs / impl Dispatcher<'a, S, Data>
//@ item src/sources/mod.rs / impl Dispatcher<'a, S, Data> / fn clone_as_event_dispatcher props=C06 sigonly ret=r
//@ enditem
//@ close
