//@ item src/sources/mod.rs / trait ErasedDispatcher props=C06
//@ pre
#[verifier::external]
//@ enditem
//@ item src/sources/mod.rs / struct Dispatcher props=C06
//@ pre
#[verifier::external_body]
#[verifier::reject_recursive_types(S)]
#[verifier::reject_recursive_types(Data)]
//@ enditem
//@ open src/sources/mod.rs / impl Dispatcher<'a, S, Data>
//@ item src/sources/mod.rs / impl Dispatcher<'a, S, Data> / fn clone_as_event_dispatcher props=C06 sigonly ret=r
//@ enditem
//@ item src/sources/mod.rs / impl Dispatcher<'a, S, Data> / fn new props=C14 sigonly ret=r
//@ spec
        // (proved on the body as slice Dispatcher::new)
        ensures disp_source(&r) == source, disp_opted_in(&r) == S::NEEDS_EXTRA_LIFECYCLE_EVENTS,
//@ enditem
//@ item src/sources/mod.rs / impl Dispatcher<'a, S, Data> / fn into_source_inner props=C15 sigonly ret=r
//@ spec
        // ASSUMED (Rc internals: `Rc::try_unwrap` succeeds when this is the last handle, the function panics otherwise):
        // if it returns, it returns the wrapped source
        ensures r == disp_source(&self),
//@ enditem
//@ close
//@ open src/sources/mod.rs / impl Clone for Dispatcher<'a, S, Data>
//@ item src/sources/mod.rs / impl Clone for Dispatcher<'a, S, Data> / fn clone props=C15 sigonly ret=r
//@ spec
        // ASSUMED (`Rc::clone` of the opaque handle): the clone is a handle to the same dispatcher
        ensures r == *self,
//@ enditem
//@ close
//@ region dispatcher_ctor_specs props=C14,C01
/// what a Dispatcher was built from (ghost; the struct is an opaque `Rc<dyn ErasedDispatcher>`, rule R5)
pub uninterp spec fn disp_source<'a, S, Data>(d: &Dispatcher<'a, S, Data>) -> S;
pub uninterp spec fn disp_opted_in<'a, S, Data>(d: &Dispatcher<'a, S, Data>) -> bool;
/// Rule R15: the unsizing coercion `Rc<RefCell<DispatcherInner<S, F>>>` -> `Rc<dyn ErasedDispatcher<'a, S, Data>>` inside the
/// tuple-struct constructor is made explicit as an identity stand-in that remembers what went in
#[verifier::external_body]
fn dispatcher_from_inner<'a, S: EventSource + 'a, Data, F: FnMut(S::Event, &mut S::Metadata, &mut Data) -> S::Ret + 'a>(inner: DispatcherInner<S, F>) -> (r: Dispatcher<'a, S, Data>)
    ensures disp_source(&r) == inner.source, disp_opted_in(&r) == inner.needs_additional_lifecycle_events,
{ unimplemented!() }
//@ endregion
impl<'a, S: EventSource + 'a, Data> Dispatcher<'a, S, Data> {
//@ slice src/sources/mod.rs / impl Dispatcher<'a, S, Data> / fn new :: body props=C14,C01 name=Dispatcher::new
//@ rw R15 1 <<Dispatcher(Rc::new(RefCell::new(DispatcherInner {>> => <<dispatcher_from_inner(((DispatcherInner {>>
//@ sig
/// S1 slice: the whole body of Dispatcher::new (one expression). R15: see dispatcher_from_inner.
fn dispatcher_new_body<F: FnMut(S::Event, &mut S::Metadata, &mut Data) -> S::Ret + 'a>(source: S, callback: F) -> (r: Dispatcher<'a, S, Data>)
//@ spec
    ensures
        // the dispatcher wraps exactly the source it was given ...
        disp_source(&r) == source,
        // C14: ... and takes part in before_sleep / before_handle_events exactly if the source's type opted in
        disp_opted_in(&r) == S::NEEDS_EXTRA_LIFECYCLE_EVENTS,
//@ endslice
}
