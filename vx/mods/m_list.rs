pub mod list {
use vstd::prelude::*;
use std::rc::Rc;
use crate::sources::EventDispatcher;
use crate::token::TokenInner;
//@ include list_body
} // mod list
