//@ item src/loop_logic.rs / struct EventIterator props=C14
//@ enditem
