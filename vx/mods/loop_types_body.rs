//@ item src/loop_logic.rs / struct EventIterator props=C14
//@ enditem
//@ region event_iterator_specs props=C14
impl<'a> EventIterator<'a> {
    /// the registration token the iterator filters for
    pub closed spec fn reg(&self) -> RegistrationToken { self.registration_token }
    /// the events it still ranges over (before filtering)
    /// the same as references into the batch (what slice::Iter hands out)
    #[verifier::prophetic]
    pub closed spec fn rest_refs(&self) -> Seq<&'a crate::sys::PollEvent> {
        vstd::std_specs::iter::IteratorSpec::remaining(&self.inner)
    }
    #[verifier::prophetic]
    pub closed spec fn rest(&self) -> Seq<crate::sys::PollEvent> {
        vstd::std_specs::iter::IteratorSpec::remaining(&self.inner).map_values(|e: &crate::sys::PollEvent| *e)
    }
}
//@ endregion
