//@ region poll_slice_specs props=C12,C02,C05
pub open spec fn opt_min(a: Option<Duration>, b: Option<Duration>) -> Option<Duration> {
    match (a, b) {
        (Some(x), Some(y)) => Some(if dur_ns(x) <= dur_ns(y) { x } else { y }),
        (Some(x), None) => Some(x),
        (None, Some(y)) => Some(y),
        (None, None) => None,
    }
}
/// relative to the clock value `now`: every entry that is due has left the heap, nothing else has
/// `ps` lists entries of the heap `before` in non-decreasing deadline order
pub open spec fn popped_in_order(ps: Seq<TimeoutData>, before: Multiset<TimeoutData>) -> bool {
    &&& forall|i: int| 0 <= i < ps.len() ==> before.count(#[trigger] ps[i]) > 0
    &&& forall|i: int, j: int| 0 <= i <= j < ps.len() ==> (#[trigger] ps[i]).ns() <= (#[trigger] ps[j]).ns()
}
pub open spec fn due_exactly_popped(before: Multiset<TimeoutData>, after: Multiset<TimeoutData>, now: Instant) -> bool {
    &&& forall|y: TimeoutData| #[trigger] after.count(y) > 0 ==> y.ns() > nanos(now)
    &&& forall|y: TimeoutData| #[trigger] after.count(y) < before.count(y) ==> y.ns() <= nanos(now)
}
//@ endregion

//@ slice src/sys.rs / impl Poll / fn poll :: stmts <<let next_timeout = self .timers .borrow() .next_deadline()>> .. <<let next_timeout = self .timers .borrow() .next_deadline()>> props=C12 name=Poll::poll::next_timeout
//@ rw R10 * <<self .timers .borrow()>> => <<timers_cell>>
//@ closure <<|deadline| deadline.saturating_duration_since(Instant::now())>>
-> (d: Duration) ensures exists|now: Instant| clock_read(now) && #[trigger] sat_since(deadline, now) == dur_ns(d)
//@ sig
/// S1 slice of Poll::poll: its first statement, the time to the earliest timer deadline. R10: the borrow of the shared
/// timer-wheel cell becomes `timers_cell`.
fn poll_next_timeout(timers_cell: &TimerWheel) -> (r: Option<Duration>)
//@ spec
    ensures
        // C12: no timer armed <=> no timer bound on the wait; otherwise the bound is the time from a clock value READ HERE
        // (not one captured earlier in the dispatch, by which time hooks and callbacks may have run) to the EARLIEST deadline
        r is None <==> timers_cell@ == Multiset::<TimeoutData>::empty(),
        r matches Some(d) ==> timers_cell.is_earliest(timers_cell.top())
            && exists|now: Instant| clock_read(now) && #[trigger] sat_since(timers_cell.top().dl(), now) == dur_ns(d),
//@ tail
    next_timeout
//@ alt
//@ rw R10 * <<self .timers .borrow()>> => <<timers_cell>>
//@ closure <<|deadline| deadline.saturating_duration_since(now)>>
-> (d: Duration) ensures sat_since(deadline, now) == dur_ns(d)
//@ sig
/// (alternative overlay for a body that measures the time to the earliest deadline against an instant `now` it was GIVEN
/// -- a parameter of `poll` -- instead of reading the clock: same contract, one more free variable)
fn poll_next_timeout(timers_cell: &TimerWheel, now: Instant) -> (r: Option<Duration>)
//@ tail
    next_timeout
//@ endslice

//@ slice src/sys.rs / impl Poll / fn poll :: stmts <<timeout = match (timeout, next_timeout)>> .. <<timeout = match (timeout, next_timeout)>> props=C12 name=Poll::poll::timeout_clamp
//@ sig
/// S1 slice of Poll::poll: the statement that clamps the user timeout by the time to the next timer deadline.
/// Free variables `timeout` (the mutable parameter) and `next_timeout` become parameters; the new value of
/// `timeout` is returned. Dropped: everything else in Poll::poll.
fn poll_timeout_clamp(mut timeout: Option<Duration>, next_timeout: Option<Duration>) -> (r: Option<Duration>)
//@ spec
    ensures
        // effective wait = min(user timeout, time to the earliest deadline); None only if both are absent
        r is None <==> (timeout is None && next_timeout is None),
        r matches Some(x) ==> dur_ns(x) == dur_ns(opt_min(timeout, next_timeout)->Some_0),
//@ entry
    proof { broadcast use axiom_duration_cmp; }
//@ tail
    timeout
//@ endslice

impl Poll {
//@ slice src/sys.rs / impl Poll / fn poll :: stmts <<let mut events = self.events.borrow_mut();>> ..< <<let level_triggered =>> props=C12,C11 name=Poll::poll::wait_step
//@ rw R10 * <<self.events.borrow_mut()>> => <<events_cell>>
//@ sig
/// S1 slice of Poll::poll: from the borrow of the event buffer up to (not including) the conversion of the collected
/// events -- the one wait on the OS poller. R10: the borrow of the buffer cell becomes `events_cell`; `timeout` (already
/// clamped, see timeout_clamp) becomes a parameter.
fn poll_wait_step(&self, events_cell: &mut Events, timeout: Option<Duration>) -> (r: crate::Result<()>)
//@ spec
    requires
        // C12/C11 (may-call side): the poller may be waited on with the clamped timeout and with nothing else -- in
        // particular not a second time for "the rest" of some interval: a wait that returned early because of a wake-up
        // (LoopSignal::wakeup, a ping from another thread) has consumed the notification, and a further wait would swallow it
        forall|t: Option<Duration>| #[trigger] self.pl().may_wait(t) <==> t == timeout,
    ensures
        // (must-call side) the poller has been waited on with exactly that timeout
        r is Ok ==> self.pl().w_waited(timeout),
//@ tail
    Ok(())
//@ endslice
}

//@ slice src/sys.rs / impl Poll / fn poll :: after <<drop(events);>> props=C02,C05,C01 name=Poll::poll::expired_timers_loop
//@ rw R10 * <<self.timers.borrow_mut()>> => <<timers_cell>>
//@ sig
/// S1 slice of Poll::poll: everything after `drop(events);` up to the end of the function -- the clock read, the loop
/// that appends one event per expired timer, and the returned batch. Free variable `poll_events` (the converted fd
/// events collected so far) becomes a parameter; rule R10: the borrow of the shared timer-wheel cell becomes
/// `timers_cell`. Dropped: everything before (timeout clamp: see the other slice; the wait; the fd-event conversion).
fn poll_expired_timers_loop(timers_cell: &mut TimerWheel, mut poll_events: Vec<PollEvent>) -> (r: crate::Result<Vec<PollEvent>>)
//@ spec
    ensures
        // this part of poll cannot fail
        r is Ok,
        // C02: EVERY timer that is due at the clock read is popped -- whether or not fd events were collected --,
        // nothing that is not due is popped (never early), nothing is added to the heap
        exists|now: Instant| clock_read(now) && #[trigger] due_exactly_popped(old(timers_cell)@, final(timers_cell)@, now),
        forall|y: TimeoutData| #[trigger] final(timers_cell)@.count(y) <= old(timers_cell)@.count(y),
        // one event per popped entry, appended AFTER the fd events, which are all kept in order
        r->Ok_0@.len() == poll_events@.len() + (old(timers_cell)@.len() - final(timers_cell)@.len()),
        forall|i: int| 0 <= i < poll_events@.len() ==> r->Ok_0@[i] == poll_events@[i],
        forall|i: int| poll_events@.len() <= i < r->Ok_0@.len() ==>
            (#[trigger] r->Ok_0@[i]).readiness.readable && !r->Ok_0@[i].readiness.writable && !r->Ok_0@[i].readiness.error,
        // C05 (order): the appended events are those of the popped entries, IN THE ORDER in which they were popped, and that
        // order is non-decreasing in the deadline -- timers due in the same dispatch fire earliest first
        exists|ps: Seq<TimeoutData>| #[trigger] popped_in_order(ps, old(timers_cell)@)
            && ps.len() == r->Ok_0@.len() - poll_events@.len()
            && forall|i: int| 0 <= i < ps.len() ==> r->Ok_0@[poll_events@.len() + i].token == (#[trigger] ps[i]).tok(),
//@ entry
    let ghost fd_events = poll_events@;
    let ghost timers0 = timers_cell@;
    let ghost mut popped: Seq<TimeoutData> = Seq::empty();
//@ before <<while let Some((_, token)) = timers.next_expired(now)>>
        let ghost mut prev = *timers;
//@ atloopstart <<while let Some>>
            proof {
                // the entry this iteration popped is the top of the wheel as it was before the call
                assert(forall|y: TimeoutData| timers@.count(y) > 0 ==> prev@.count(y) > 0);
                popped = popped.push(prev.top());
            }
//@ atloopend <<while let Some>>
            proof { prev = *timers; }
//@ loop 1
        invariant_except_break
            prev == *timers,
        invariant
            popped_in_order(popped, timers0),
            popped.len() == poll_events@.len() - fd_events.len(),
            forall|i: int| 0 <= i < popped.len() ==> poll_events@[fd_events.len() + i].token == (#[trigger] popped[i]).tok(),
            // everything still in the wheel is due no earlier than the entry popped last
            popped.len() > 0 ==> forall|y: TimeoutData| timers@.count(y) > 0 ==> popped.last().ns() <= #[trigger] y.ns(),
            forall|y: TimeoutData| #[trigger] timers@.count(y) <= timers0.count(y),
            forall|y: TimeoutData| #[trigger] timers@.count(y) < timers0.count(y) ==> y.ns() <= nanos(now),
            poll_events@.len() == fd_events.len() + (timers0.len() - timers@.len()),
            timers@.len() <= timers0.len(), clock_read(now),
            forall|i: int| 0 <= i < fd_events.len() ==> poll_events@[i] == fd_events[i],
            forall|i: int| fd_events.len() <= i < poll_events@.len() ==>
                (#[trigger] poll_events@[i]).readiness.readable && !poll_events@[i].readiness.writable && !poll_events@[i].readiness.error,
        ensures
            // (also the witness term for the existential in the postcondition)
            due_exactly_popped(timers0, timers@, now) && clock_read(now),
        decreases timers@.len(),
//@ alt
//@ rw R10 * <<self.timers.borrow_mut()>> => <<timers_cell>>
//@ entry
    // (alternative overlay for a body WITHOUT a loop -- e.g. `if let` instead of `while let`: the contract is the same, so a
    // body that pops at most one expired timer is reported instead of being undecided)
    let ghost fd_events = poll_events@;
    let ghost timers0 = timers_cell@;
//@ alt
//@ rw R10 * <<self.timers.borrow_mut()>> => <<timers_cell>>
//@ sig
/// (alternative overlay for a body that ALSO uses an instant `start` captured at the top of the function and the effective
/// `timeout` -- e.g. to compute "now" instead of reading the clock: same contract, two more free variables)
fn poll_expired_timers_loop(timers_cell: &mut TimerWheel, mut poll_events: Vec<PollEvent>, start: Instant, timeout: Option<Duration>) -> (r: crate::Result<Vec<PollEvent>>)
//@ entry
    let ghost fd_events = poll_events@;
    let ghost timers0 = timers_cell@;
    let ghost mut popped: Seq<TimeoutData> = Seq::empty();
//@ before <<while let Some((_, token)) = timers.next_expired(now)>>
        let ghost mut prev = *timers;
        // (whether `now` is a clock value that has been read is decided by the code before the loop; carried through it)
        let ghost now_was_read: bool = clock_read(now);
//@ atloopstart <<while let Some>>
            proof {
                assert(forall|y: TimeoutData| timers@.count(y) > 0 ==> prev@.count(y) > 0);
                popped = popped.push(prev.top());
            }
//@ atloopend <<while let Some>>
            proof { prev = *timers; }
//@ loop 1
        invariant_except_break
            prev == *timers,
        invariant
            popped_in_order(popped, timers0),
            popped.len() == poll_events@.len() - fd_events.len(),
            forall|i: int| 0 <= i < popped.len() ==> poll_events@[fd_events.len() + i].token == (#[trigger] popped[i]).tok(),
            popped.len() > 0 ==> forall|y: TimeoutData| timers@.count(y) > 0 ==> popped.last().ns() <= #[trigger] y.ns(),
            forall|y: TimeoutData| #[trigger] timers@.count(y) <= timers0.count(y),
            forall|y: TimeoutData| #[trigger] timers@.count(y) < timers0.count(y) ==> y.ns() <= nanos(now),
            poll_events@.len() == fd_events.len() + (timers0.len() - timers@.len()),
            timers@.len() <= timers0.len(), now_was_read == clock_read(now),
            forall|i: int| 0 <= i < fd_events.len() ==> poll_events@[i] == fd_events[i],
            forall|i: int| fd_events.len() <= i < poll_events@.len() ==>
                (#[trigger] poll_events@[i]).readiness.readable && !poll_events@[i].readiness.writable && !poll_events@[i].readiness.error,
        ensures
            due_exactly_popped(timers0, timers@, now), now_was_read == clock_read(now),
        decreases timers@.len(),
//@ alt
//@ rw R10 * <<self.timers.borrow_mut()>> => <<timers_cell>>
//@ sig
/// (the same once more for a body that also looks at the number of ready sources the wait returned: `ready`)
fn poll_expired_timers_loop(timers_cell: &mut TimerWheel, mut poll_events: Vec<PollEvent>, start: Instant, timeout: Option<Duration>, ready: usize) -> (r: crate::Result<Vec<PollEvent>>)
//@ entry
    let ghost fd_events = poll_events@;
    let ghost timers0 = timers_cell@;
    let ghost mut popped: Seq<TimeoutData> = Seq::empty();
//@ before <<while let Some((_, token)) = timers.next_expired(now)>>
        let ghost mut prev = *timers;
        // (whether `now` is a clock value that has been read is decided by the code before the loop; carried through it)
        let ghost now_was_read: bool = clock_read(now);
//@ atloopstart <<while let Some>>
            proof {
                assert(forall|y: TimeoutData| timers@.count(y) > 0 ==> prev@.count(y) > 0);
                popped = popped.push(prev.top());
            }
//@ atloopend <<while let Some>>
            proof { prev = *timers; }
//@ loop 1
        invariant_except_break
            prev == *timers,
        invariant
            popped_in_order(popped, timers0),
            popped.len() == poll_events@.len() - fd_events.len(),
            forall|i: int| 0 <= i < popped.len() ==> poll_events@[fd_events.len() + i].token == (#[trigger] popped[i]).tok(),
            popped.len() > 0 ==> forall|y: TimeoutData| timers@.count(y) > 0 ==> popped.last().ns() <= #[trigger] y.ns(),
            forall|y: TimeoutData| #[trigger] timers@.count(y) <= timers0.count(y),
            forall|y: TimeoutData| #[trigger] timers@.count(y) < timers0.count(y) ==> y.ns() <= nanos(now),
            poll_events@.len() == fd_events.len() + (timers0.len() - timers@.len()),
            timers@.len() <= timers0.len(), now_was_read == clock_read(now),
            forall|i: int| 0 <= i < fd_events.len() ==> poll_events@[i] == fd_events[i],
            forall|i: int| fd_events.len() <= i < poll_events@.len() ==>
                (#[trigger] poll_events@[i]).readiness.readable && !poll_events@[i].readiness.writable && !poll_events@[i].readiness.error,
        ensures
            due_exactly_popped(timers0, timers@, now), now_was_read == clock_read(now),
        decreases timers@.len(),
//@ endslice

impl Poll {
//@ slice src/sys.rs / impl Poll / fn poll :: closure 2 props=C01,C02,C20 name=Poll::poll::convert_event
//@ rw R10 * <<level_triggered.as_ref()>> => <<level_triggered>>
//@ sig
/// S1 slice of Poll::poll: the body of the closure that converts one `polling` event into a calloop event (and re-arms
/// the fd when level-triggering is emulated). The closure parameter `ev` and the captured `self` become parameters;
/// R10: the captured `Option<Ref<HashMap>>` (borrow of the emulation table) becomes `level_triggered: Option<&HashMap>`.
fn poll_convert_event(&self, level_triggered: Option<&HashMap<usize, (Raw, polling::Event)>>, ev: polling::Event) -> (r: std::io::Result<PollEvent>)
//@ spec
    ensures
        // C20/C01/C02: the token handed to the loop is exactly the decoding of the key the kernel reported, and the readiness
        // is exactly what the kernel reported (error never set here)
        r matches Ok(e) ==> e.token.inner.key() == ev.key && e.readiness.readable == ev.readable && e.readiness.writable == ev.writable && !e.readiness.error,
//@ endslice
}
