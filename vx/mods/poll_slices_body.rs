//@ region poll_slice_specs props=C12,C02,C05
pub open spec fn opt_min(a: Option<Duration>, b: Option<Duration>) -> Option<Duration> {
    match (a, b) {
        (Some(x), Some(y)) => Some(if dur_ns(x) <= dur_ns(y) { x } else { y }),
        (Some(x), None) => Some(x),
        (None, Some(y)) => Some(y),
        (None, None) => None,
    }
}
//@ endregion

//@ slice src/sys.rs / impl Poll / fn poll :: stmts <<timeout = match (timeout, next_timeout)>> .. <<timeout = match (timeout, next_timeout)>> props=C12 name=Poll::poll::timeout_clamp
//@ sig
/// S1 slice of Poll::poll: the statement that clamps the user timeout by the time to the next timer deadline.
/// Free variables `timeout` (the mutable parameter) and `next_timeout` become parameters; the new value of
/// `timeout` is returned. Dropped: everything else in Poll::poll.
fn poll_timeout_clamp(mut timeout: Option<Duration>, next_timeout: Option<Duration>) -> (r: Option<Duration>)
//@ spec
    ensures
        // effective wait = min(user timeout, time to the earliest deadline); None only if both are absent
        r is None <==> (timeout is None && next_timeout is None),
        r matches Some(x) ==> dur_ns(x) == dur_ns(opt_min(timeout, next_timeout)->Some_0),
//@ entry
    proof { broadcast use axiom_duration_cmp; }
//@ tail
    timeout
//@ endslice

//@ slice src/sys.rs / impl Poll / fn poll :: stmts <<while let Some((_, token)) = timers.next_expired(now)>> .. <<while let Some((_, token)) = timers.next_expired(now)>> props=C02,C05 name=Poll::poll::expired_timers_loop
//@ sig
/// S1 slice of Poll::poll: the loop that appends one event per expired timer. Free variables become parameters:
/// `timers` (in the real code a RefMut<TimerWheel> obtained from self.timers.borrow_mut(); here the &mut
/// TimerWheel it dereferences to), `now`, `poll_events`. Dropped: everything else in Poll::poll.
fn poll_expired_timers_loop(timers: &mut TimerWheel, now: Instant, poll_events: &mut Vec<PollEvent>)
//@ spec
    ensures
        // nothing that is still in the heap is due, nothing was added to the heap
        forall|y: TimeoutData| final(timers)@.count(y) > 0 ==> y.ns() > nanos(now),
        forall|y: TimeoutData| final(timers)@.count(y) <= old(timers)@.count(y),
        // never early: every entry that left the heap was due
        forall|y: TimeoutData| final(timers)@.count(y) < old(timers)@.count(y) ==> y.ns() <= nanos(now),
        // one event per entry that left the heap, appended after the fd events, nothing else touched
        final(poll_events)@.len() == old(poll_events)@.len() + (old(timers)@.len() - final(timers)@.len()),
        forall|i: int| 0 <= i < old(poll_events)@.len() ==> final(poll_events)@[i] == old(poll_events)@[i],
        forall|i: int| old(poll_events)@.len() <= i < final(poll_events)@.len() ==>
            (#[trigger] final(poll_events)@[i]).readiness.readable && !final(poll_events)@[i].readiness.writable && !final(poll_events)@[i].readiness.error,
//@ loop 1
        invariant
            forall|y: TimeoutData| timers@.count(y) <= old(timers)@.count(y),
            forall|y: TimeoutData| timers@.count(y) < old(timers)@.count(y) ==> y.ns() <= nanos(now),
            poll_events@.len() == old(poll_events)@.len() + (old(timers)@.len() - timers@.len()),
            timers@.len() <= old(timers)@.len(),
            forall|i: int| 0 <= i < old(poll_events)@.len() ==> poll_events@[i] == old(poll_events)@[i],
            forall|i: int| old(poll_events)@.len() <= i < poll_events@.len() ==>
                (#[trigger] poll_events@[i]).readiness.readable && !poll_events@[i].readiness.writable && !poll_events@[i].readiness.error,
        ensures
            forall|y: TimeoutData| timers@.count(y) > 0 ==> y.ns() > nanos(now),
        decreases timers@.len(),
//@ endslice
