//@ item src/sources/ping/eventfd.rs / const INCREMENT_PING props=C03
//@ enditem
//@ item src/sources/ping/eventfd.rs / const INCREMENT_CLOSE props=C03
//@ enditem
//@ item src/sources/ping/eventfd.rs / struct ArcAsFd props=C03
//@ rw R6 1 <<struct ArcAsFd>> => <<pub(crate) struct ArcAsFd>>
//@ enditem
//@ region arcasfd_axiom props=C03
/// ASSUMED: the descriptor of the newtype wrapper is the descriptor of what it wraps
#[verifier::external_body]
broadcast proof fn axiom_arcasfd_fd(a: &ArcAsFd)
    ensures #[trigger] crate::ext::fd_raw(a) == crate::ext::fd_raw(&a.0),
{}
//@ endregion
//@ open src/sources/ping/eventfd.rs / impl AsFd for ArcAsFd
//@ item src/sources/ping/eventfd.rs / impl AsFd for ArcAsFd / fn as_fd props=C03
//@ entry
        proof { axiom_arcasfd_fd(self); }
//@ enditem
//@ close

//@ region ping_specs props=C03
/// the value of the eventfd counter that the (single) drain of this event reads: +2 per ping, +1 for the close
/// marker. Ghost: the kernel counter is not representable; drain_ping is ASSUMED to return it.
pub uninterp spec fn pending_counter() -> u64;
pub open spec fn pinged(c: u64) -> bool { c >= 2 }
pub open spec fn closed(c: u64) -> bool { c % 2 == 1 }
//@ endregion

//@ region drain_specs props=C03
/// the u64 a native-endian 8-byte string denotes (ghost view of `u64::from_ne_bytes`)
pub uninterp spec fn ne_val(b: Seq<u8>) -> u64;
/// stand-in for `u64::from_ne_bytes` (rule R17, as for to_ne_bytes in send_ping)
#[verifier::external_body]
fn u64_from_ne_bytes(b: [u8; 8]) -> (r: u64)
    ensures r == ne_val(b@),
{ u64::from_ne_bytes(b) }
/// ASSUMED (kernel, eventfd(2)): a successful read of an eventfd returns exactly 8 bytes, the native-endian counter -- the
/// value `pending_counter()` stands for -- (and resets it)
#[verifier::external_body]
pub broadcast proof fn axiom_eventfd_read(fd: int, data: Seq<u8>)
    requires #[trigger] crate::rustix::io::w_read_returned(fd, data),
    ensures data.len() == 8, ne_val(data) == pending_counter(),
{}
//@ endregion
//@ item src/sources/ping/eventfd.rs / fn drain_ping props=C03 ret=r
//@ rw R17 * <<u64::from_ne_bytes(buf)>> => <<u64_from_ne_bytes(buf)>>
//@ entry
    proof { broadcast use axiom_eventfd_read; }
//@ before <<Ok(u64::from_ne_bytes>>
        proof { assert(buf@.take(8) =~= buf@); }
//@ spec
    // C03 (single drain per event): what the source decodes is the counter the kernel handed out, whole
    ensures r matches Ok(c) ==> c == pending_counter(),
//@ enditem

//@ slice src/sources/ping/eventfd.rs / impl EventSource for PingSource / fn process_events :: closure 1 props=C03,C04,C10,C12,C02,C01 name=PingSource::process_events::event_closure
//@ sig
/// S1 slice: body of the closure PingSource::process_events passes to its inner Generic; `fd` is the closure
/// parameter, `callback` the captured user callback (captured by unique borrow in the real code).
fn ping_event_closure<C: FnMut((), &mut ())>(fd: &mut NoIoDrop<ArcAsFd>, mut callback: C) -> (r: std::io::Result<PostAction>)
//@ spec
    requires
        // the callback is callable ONLY if the drained counter contains at least one ping: no callback without a ping
        forall|m: &mut ()| pinged(pending_counter()) ==> #[trigger] call_requires(callback, ((), m)),
    ensures
        // close marker => Remove (after the outstanding ping has been delivered), otherwise Continue
        r matches Ok(a) ==> (a is Remove <==> closed(pending_counter())) && (a is Remove || a is Continue),
        // pings accumulated in the counter produce a single callback
        (r is Ok && pinged(pending_counter())) ==> exists|m: &mut ()| #[trigger] call_ensures(callback, ((), m), ()),
//@ entry
    proof {
        assert(forall|c: u64| ((#[trigger] (c & 1u64)) != 0) == (c % 2 == 1)) by (bit_vector);
        assert(forall|c: u64| ((#[trigger] (c & 0xfffffffffffffffeu64)) != 0) == (c >= 2)) by (bit_vector);
        assert(u64::MAX - 1 == 0xfffffffffffffffeu64);
    }
//@ endslice

//@ item src/sources/ping/eventfd.rs / struct PingSource props=C03,C16
//@ enditem
//@ region pingsource_specs props=C03,C16
impl PingSource {
    pub closed spec fn inner(&self) -> Generic<ArcAsFd> { self.event }
    /// the eventfd this source polls (ghost; for users outside this module, which cannot name ArcAsFd)
    pub closed spec fn raw(&self) -> int { self.event.raw() }
}
//@ endregion
//@ open src/sources/ping/eventfd.rs / impl EventSource for PingSource
//@ item src/sources/ping/eventfd.rs / impl EventSource for PingSource / type Event props=C03
//@ enditem
//@ item src/sources/ping/eventfd.rs / impl EventSource for PingSource / type Metadata props=C03
//@ enditem
//@ item src/sources/ping/eventfd.rs / impl EventSource for PingSource / type Ret props=C03
//@ enditem
//@ item src/sources/ping/eventfd.rs / impl EventSource for PingSource / type Error props=C03
//@ enditem
//@ region pingsource_protocol props=C03,C16
    // PingSource is its inner Generic as far as registration goes
    open spec fn wf(&self) -> bool { self.inner().wf() }
    open spec fn registered(&self) -> bool { self.inner().registered() }
    open spec fn register_req(&self) -> bool { self.inner().register_req() }
    open spec fn register_ens(o: &Self, n: &Self, ok: bool) -> bool { Generic::<ArcAsFd>::register_ens(&o.inner(), &n.inner(), ok) }
    open spec fn reregister_req(&self) -> bool { self.inner().reregister_req() }
    open spec fn reregister_ens(o: &Self, n: &Self, ok: bool) -> bool { Generic::<ArcAsFd>::reregister_ens(&o.inner(), &n.inner(), ok) }
    open spec fn unregister_req(&self) -> bool { self.inner().unregister_req() }
    open spec fn unregister_ens(o: &Self, n: &Self, ok: bool) -> bool { Generic::<ArcAsFd>::unregister_ens(&o.inner(), &n.inner(), ok) }
    open spec fn process_req(&self) -> bool { self.inner().process_req() }
    open spec fn may_call(&self, readiness: Readiness, token: Token, e: ()) -> bool { self.inner().tok() == Some(token) }
    open spec fn cb_req<CbF: FnMut((), &mut ())>(&self, readiness: Readiness, token: Token, callback: CbF) -> bool {
        forall|e: (), m: &mut ()| self.may_call(readiness, token, e) ==> #[trigger] call_requires(callback, (e, m))
    }
    open spec fn process_ens(o: &Self, n: &Self, readiness: Readiness, token: Token, r: Result<PostAction, PingError>) -> bool { true }
//@ endregion
//@ item src/sources/ping/eventfd.rs / impl EventSource for PingSource / fn process_events props=C03 sigonly
//@ rw R8 1 <<process_events<C>>> => <<process_events<CbF>>>
//@ rw R8 1 <<mut callback: C,>> => <<mut callback: CbF,>>
//@ rw R8 1 <<C: FnMut(Self::Event>> => <<CbF: FnMut(Self::Event>>
//@ enditem
//@ item src/sources/ping/eventfd.rs / impl EventSource for PingSource / fn register props=C03,C16
//@ enditem
//@ item src/sources/ping/eventfd.rs / impl EventSource for PingSource / fn reregister props=C03,C16
//@ enditem
//@ item src/sources/ping/eventfd.rs / impl EventSource for PingSource / fn unregister props=C03,C16
//@ enditem
//@ close
