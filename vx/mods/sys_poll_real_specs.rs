//@ region poll_reg_specs props=C16,C02
/// the polling::Event that register/reregister must hand to the poller for (interest, token)
pub open spec fn expected_event(interest: Interest, token: Token) -> Event {
    Event { key: token.tok().key() as usize, readable: interest.readable, writable: interest.writable }
}
/// cvt_mode as a function
pub open spec fn spec_cvt_mode(mode: Mode, supports_other_modes: bool) -> PollMode {
    if !supports_other_modes { PollMode::Oneshot } else {
        match mode { Mode::Edge => PollMode::Edge, Mode::Level => PollMode::Level, Mode::OneShot => PollMode::Oneshot }
    }
}
//@ endregion
