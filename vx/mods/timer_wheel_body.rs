//@ region timerwheel_specs props=C05,C12,C02
impl TimeoutData {
    pub closed spec fn dl(&self) -> Instant { self.deadline }
    pub closed spec fn tok(&self) -> Token { self.token }
    pub closed spec fn ctr(&self) -> int { self.counter as int }
    /// x is the entry (deadline, token, counter) -- said without naming the counter's machine type
    pub closed spec fn is_entry(&self, deadline: Instant, token: Token, counter: int) -> bool {
        self.deadline == deadline && self.token == token && self.counter as int == counter
    }
    pub broadcast proof fn lemma_is_entry(x: TimeoutData, deadline: Instant, token: Token, counter: int)
        requires #[trigger] x.is_entry(deadline, token, counter),
        ensures x.dl() == deadline, x.tok() == token, x.ctr() == counter,
    {}
    /// nanosecond view of the deadline
    pub open spec fn ns(&self) -> int { nanos(self.dl()) }
}
impl vstd::std_specs::cmp::PartialEqSpecImpl for TimeoutData {
    open spec fn obeys_eq_spec() -> bool { true }
    open spec fn eq_spec(&self, other: &TimeoutData) -> bool { self.ns() == other.ns() }
}
impl vstd::std_specs::cmp::PartialOrdSpecImpl for TimeoutData {
    open spec fn obeys_partial_cmp_spec() -> bool { true }
    /// earlier deadlines are greater
    open spec fn partial_cmp_spec(&self, other: &TimeoutData) -> Option<Ordering> { Some(rev(int_cmp(self.ns(), other.ns()))) }
}
impl vstd::std_specs::cmp::OrdSpecImpl for TimeoutData {
    open spec fn obeys_cmp_spec() -> bool { true }
    open spec fn cmp_spec(&self, other: &TimeoutData) -> Ordering { rev(int_cmp(self.ns(), other.ns())) }
}
impl TimerWheel {
    /// abstract view: multiset of (deadline, token, counter) entries
    pub closed spec fn view(&self) -> Multiset<TimeoutData> { heap_view(&self.heap) }
    pub closed spec fn next_counter(&self) -> int { self.counter as int }
    /// the entry at the root of the heap (meaningful when the heap is not empty)
    pub closed spec fn top(&self) -> TimeoutData { heap_top(&self.heap) }
    /// no arming yet: nothing in the heap, the first counter still to be handed out
    pub open spec fn is_fresh(&self) -> bool { self@ == Multiset::<TimeoutData>::empty() && self.next_counter() == 0 }
    /// at most one entry per counter
    pub open spec fn uniq(&self) -> bool {
        forall|x: TimeoutData, y: TimeoutData| #![trigger self@.count(x), self@.count(y)] self@.count(x) > 0 && self@.count(y) > 0 && x.ctr() == y.ctr() ==> x == y && self@.count(x) == 1
    }
    /// every counter in the heap was handed out before: the next one handed out is fresh
    pub open spec fn below(&self) -> bool {
        forall|x: TimeoutData| #[trigger] self@.count(x) > 0 ==> x.ctr() < self.next_counter()
    }
    /// x is an entry with the earliest deadline
    pub open spec fn is_earliest(&self, x: TimeoutData) -> bool {
        self@.count(x) > 0 && forall|y: TimeoutData| self@.count(y) > 0 ==> x.ns() <= y.ns()
    }
}
/// heap-max == earliest deadline, for TimeoutData's reversed order
pub broadcast proof fn lemma_max_is_earliest(m: Multiset<TimeoutData>, x: TimeoutData)
    requires #[trigger] is_max::<TimeoutData>(m, x),
    ensures forall|y: TimeoutData| m.count(y) > 0 ==> x.ns() <= y.ns(),
{
    assert forall|y: TimeoutData| m.count(y) > 0 implies x.ns() <= y.ns() by {
        assert(heap_le(y, x));
        axiom_heap_le::<TimeoutData>(y, x);
    }
}
//@ endregion

//@ region wheel_witnesses props=C05,C07
// must-call witnesses for the two operations a Timer performs on the SHARED wheel (which it only ever sees through a
// RefCell borrow, i.e. as an arbitrary value): produced by the postconditions of insert / cancel -- opaque, so a caller
// can establish them only by making the call.
#[verifier::opaque] pub closed spec fn w_wheel_inserted(counter: int, deadline: Instant, token: Token) -> bool { true }
#[verifier::opaque] pub closed spec fn w_wheel_cancelled(counter: int) -> bool { true }
/// insert_reuse(counter, deadline, token) has been called: a rescheduled timer IS back in the heap under its old counter
#[verifier::opaque] pub closed spec fn w_wheel_reinserted(counter: int, deadline: Instant, token: Token) -> bool { true }
//@ endregion
//@ open src/sources/timer.rs / impl TimerWheel
//@ item src/sources/timer.rs / impl TimerWheel / fn new props=C05 ret=r
//@ spec
        ensures r@ == Multiset::<TimeoutData>::empty(), r.next_counter() == 0, r.uniq(),
//@ enditem
//@ item src/sources/timer.rs / impl TimerWheel / fn insert props=C05 ret=r
//@ rw R24 * <<self .counter .checked_add(1) .expect("timer arming counter overflow")>> => <<crate::ext::expect_some_or_diverge(self.counter.checked_add(1), "timer arming counter overflow")>>
//@ spec
        // C05 (from the property: cancel is final, exactly once per arming -- every arming has an identity of its own):
        // NO bound on the number of armings. (With the u32 counter and `+= 1` this was defect F9: the possible overflow is
        // the failing obligation. R24: `.expect(..)` on the checked increment does not return on overflow.)
        ensures
            r == old(self).next_counter(),
            final(self).next_counter() == old(self).next_counter() + 1,
            exists|x: TimeoutData| #[trigger] x.is_entry(deadline, token, r as int) && final(self)@ == old(self)@.insert(x),
            w_wheel_inserted(r as int, deadline, token),
            // the counter handed out is fresh: no entry of the heap carries it, and that stays so
            (old(self).uniq() && old(self).below()) ==> (final(self).uniq() && final(self).below()),
//@ after <<let ret = self.counter;>>
        proof {
            let x = TimeoutData { deadline: deadline, token: token, counter: old(self).counter };
            assert(self@ == old(self)@.insert(x));
            assert(x.is_entry(deadline, token, ret as int));
            if old(self).uniq() && old(self).below() {
                assert(old(self)@.count(x) == 0);
                assert forall|y: TimeoutData| #[trigger] self@.count(y) > 0 implies y.ctr() < old(self).next_counter() + 1 by {
                    if y != x { assert(old(self)@.count(y) > 0); }
                }
                assert forall|a: TimeoutData, b: TimeoutData| #![trigger self@.count(a), self@.count(b)] self@.count(a) > 0 && self@.count(b) > 0 && a.ctr() == b.ctr() implies a == b && self@.count(a) == 1 by {
                    if a != x { assert(old(self)@.count(a) > 0); }
                    if b != x { assert(old(self)@.count(b) > 0); }
                }
            }
        }
//@ entry
        proof { reveal(w_wheel_inserted); }
//@ enditem
//@ item src/sources/timer.rs / impl TimerWheel / fn insert_reuse props=C05
//@ spec
        ensures
            final(self).next_counter() == old(self).next_counter(),
            exists|x: TimeoutData| #[trigger] x.is_entry(deadline, token, counter as int) && final(self)@ == old(self)@.insert(x),
            w_wheel_reinserted(counter as int, deadline, token),
//@ exit
        proof {
            reveal(w_wheel_reinserted);
            let x = TimeoutData { deadline: deadline, token: token, counter: counter };
            assert(x.is_entry(deadline, token, counter as int));
            assert(self@ == old(self)@.insert(x));
        }
//@ enditem
//@ item src/sources/timer.rs / impl TimerWheel / fn cancel props=C05,C12
//@ entry
        proof { broadcast use lemma_max_is_earliest; reveal(w_wheel_cancelled); }
//@ exit
        proof {
            let p = |x: TimeoutData| x.ctr() != counter;
            assert(self@ == old(self)@.filter(p));
        }
//@ spec
        ensures
            w_wheel_cancelled(counter as int),
            // entries of other timers are never touched, nothing is added
            forall|x: TimeoutData| x.ctr() != counter ==> #[trigger] final(self)@.count(x) == old(self)@.count(x),
            forall|x: TimeoutData| #[trigger] final(self)@.count(x) <= old(self)@.count(x),
            // cancel is final: with at most one entry per counter, no entry for this counter remains
            old(self).uniq() ==> (forall|x: TimeoutData| x.ctr() == counter ==> #[trigger] final(self)@.count(x) == 0),
            old(self).uniq() ==> final(self).uniq(),
            final(self).next_counter() == old(self).next_counter(),
//@ enditem
//@ item src/sources/timer.rs / impl TimerWheel / fn next_expired props=C05,C02,C01 ret=r
//@ closure <<|data| now >= data.deadline>>
-> (b: bool) ensures b == (nanos(now) >= data.ns())
//@ entry
        proof { broadcast use lemma_max_is_earliest, axiom_instant_cmp; }
//@ spec
        ensures
            match r {
                // never early, earliest first, exactly that entry leaves the heap
                Some((c, tok)) => old(self).is_earliest(old(self).top()) && old(self).top().ns() <= nanos(now)
                    && old(self).top().ctr() == c && old(self).top().tok() == tok && final(self)@ == old(self)@.remove(old(self).top()),
                // nothing is due: heap untouched
                None => final(self)@ == old(self)@ && forall|y: TimeoutData| old(self)@.count(y) > 0 ==> y.ns() > nanos(now),
            },
            final(self).next_counter() == old(self).next_counter(),
//@ enditem
//@ item src/sources/timer.rs / impl TimerWheel / fn next_deadline props=C05,C12 ret=r
//@ closure <<|data| data.deadline>>
-> (d: Instant) ensures d == data.dl()
//@ entry
        proof { broadcast use lemma_max_is_earliest; }
//@ spec
        ensures
            match r {
                Some(d) => self.is_earliest(self.top()) && self.top().dl() == d,
                None => self@ == Multiset::<TimeoutData>::empty(),
            },
//@ enditem
//@ close

//@ open src/sources/timer.rs / impl std::cmp::Ord for TimeoutData
//@ item src/sources/timer.rs / impl std::cmp::Ord for TimeoutData / fn cmp props=C05
//@ entry
        proof { broadcast use axiom_instant_cmp; }
//@ enditem
//@ close
//@ open src/sources/timer.rs / impl std::cmp::PartialOrd for TimeoutData
//@ item src/sources/timer.rs / impl std::cmp::PartialOrd for TimeoutData / fn partial_cmp props=C05
//@ enditem
//@ close
//@ open src/sources/timer.rs / impl std::cmp::PartialEq for TimeoutData
//@ item src/sources/timer.rs / impl std::cmp::PartialEq for TimeoutData / fn eq props=C05
//@ entry
        proof { broadcast use axiom_instant_cmp; }
//@ enditem
//@ close
//@ item src/sources/timer.rs / impl std::cmp::Eq for TimeoutData props=C05
//@ enditem
