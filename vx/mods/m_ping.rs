pub mod ping {
use vstd::prelude::*;
/// stand-in for calloop::ping::PingError (opaque: wraps Box<dyn Error + Sync + Send>, rule R5)
#[verifier::external_body] #[derive(Debug)] pub struct PingError(pub crate::ext::BoxDynError);
pub mod eventfd {
use vstd::prelude::*;
use std::os::unix::io::{AsFd, BorrowedFd, OwnedFd};
use std::sync::Arc;
use super::PingError;
use crate::rustix::event::{eventfd, EventfdFlags};
use crate::rustix::io::{read, write, Errno};
use crate::{generic::Generic, generic::NoIoDrop, EventSource, Interest, Mode, Poll, PostAction, Readiness, Token, TokenFactory};
//@ include ping_body
//@ include ping_write_body
} // mod eventfd
// ping.rs proper only re-exports the platform module (type aliases + a forwarding make_ping): not extracted
pub use self::eventfd::{make_ping, Ping, PingSource};
} // mod ping
