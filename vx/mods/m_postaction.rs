pub mod sources {
use vstd::prelude::*;
use std::ops::{BitOr, BitOrAssign};
//@ include sources_postaction_body
} // mod sources
pub use crate::sources::PostAction;
