//@ if poll_reg_real
//@ item src/sys.rs / impl Poll / fn register props=C16,C02,C07 ret=r
//@ else
//@ item src/sys.rs / impl Poll / fn register props=C16,C02,C07 sigonly ret=r
//@ endif
//@ spec
//@ if poll_reg_real
        requires
            // C16 (may-call side; a verification device, see DESIGN 2.12): the ONLY thing register may add to the OS poller
            forall|f: int, e: Event, m: PollMode| #[trigger] self.pl().may_add(f, e, m) <==> (
                f == crate::polling::fd_raw(&fd) && e == expected_event(interest, token) && m == spec_cvt_mode(mode, self.pl().spec_supports_level())),
//@ endif
        ensures
            // C16 (must-call side): Ok means the fd HAS been added to the OS poller with exactly: this fd, the key of this
            // token, the requested interest, the requested trigger mode (one-shot emulation without level/edge support)
            r is Ok ==> self.pl().w_added(crate::polling::fd_raw(&fd), expected_event(interest, token), spec_cvt_mode(mode, self.pl().spec_supports_level())),
//@ enditem
//@ if poll_reg_real
//@ item src/sys.rs / impl Poll / fn reregister props=C16,C02,C07 ret=r
//@ else
//@ item src/sys.rs / impl Poll / fn reregister props=C16,C02,C07 sigonly ret=r
//@ endif
//@ spec
//@ if poll_reg_real
        requires
            forall|f: int, e: Event, m: PollMode| #[trigger] self.pl().may_modify(f, e, m) <==> (
                f == crate::polling::fd_raw(&fd) && e == expected_event(interest, token) && m == spec_cvt_mode(mode, self.pl().spec_supports_level())),
//@ endif
//@ if poll_rereg_guarded
        // (generic unit only: a may-call guard on the caller side -- an EXTRA obligation for callers of this signature-only
        // copy, so that Generic::reregister has to justify every replacement; the proved contract has no such precondition)
        requires self.pl().may_rereg(crate::polling::fd_raw(&fd)),
//@ endif
        ensures
            r is Ok ==> self.pl().w_modified(crate::polling::fd_raw(&fd), expected_event(interest, token), spec_cvt_mode(mode, self.pl().spec_supports_level())),
//@ enditem
//@ if poll_reg_real
//@ item src/sys.rs / impl Poll / fn unregister props=C16,C07 ret=r
//@ rw R2 * <<|_, (source, _)| *source != raw>> => <<|_k, _v| _v.0 != raw>>
//@ else
//@ item src/sys.rs / impl Poll / fn unregister props=C16,C07 sigonly ret=r
//@ endif
//@ spec
//@ if poll_unreg_guarded
        // (io unit only: a may-call guard on the caller side -- an EXTRA obligation for callers of this signature-only copy,
        // so that `kill` has to justify every deletion; the proved contract has no precondition)
        requires self.pl().may_delete(crate::polling::fd_raw(&fd)),
//@ endif
        ensures
            // C16: Ok means the fd HAS been deleted from the OS poller
            r is Ok ==> self.pl().w_deleted(crate::polling::fd_raw(&fd)),
            // ... and, whatever the outcome, the deletion has been attempted
            self.pl().w_delete_called(crate::polling::fd_raw(&fd)),
//@ enditem
//@ if poll_reg_real
//@ item src/sys.rs / impl Poll / fn new_inner props=C05,C02,C12 ret=r
//@ else
//@ item src/sys.rs / impl Poll / fn new_inner props=C05,C02,C12 sigonly ret=r
//@ endif
//@ spec
        ensures
            r matches Ok(p) ==> {
                // C05: a fresh loop has no armed timer (nothing can fire that was never armed)
                &&& crate::ext::refcell_init(&*p.timers).is_fresh()
                // C12/C02: the event buffer the first wait appends to starts empty
                &&& crate::ext::refcell_init(&p.events).is_clear()
                // C02: level-triggered registrations are emulated (one-shot + re-arm table) exactly when the platform's poller
                // has no level mode -- or when the fallback is forced (tests)
                &&& (p.level_triggered is None <==> (p.pl().spec_supports_level() && !force_fallback_lt))
            },
//@ enditem
//@ if poll_reg_real
//@ item src/sys.rs / impl Poll / fn new props=C05,C02,C12 ret=r
//@ else
//@ item src/sys.rs / impl Poll / fn new props=C05,C02,C12 sigonly ret=r
//@ endif
//@ spec
        ensures
            // the loop's Poll never forces the emulation
            r matches Ok(p) ==> crate::ext::refcell_init(&*p.timers).is_fresh() && crate::ext::refcell_init(&p.events).is_clear()
                && (p.level_triggered is None <==> p.pl().spec_supports_level()),
//@ enditem
//@ item src/sys.rs / impl Poll / fn notifier props=C11 ret=r
//@ spec
        ensures
            // C11: the wake-up handle notifies the very poller this Poll waits on
            r.pl() == self.pl(),
//@ enditem
