pub mod loop_logic {
use vstd::prelude::*;
use std::slice;
use crate::sys::PollEvent;
use crate::token::TokenInner;
//@ include regtoken_body
//@ include loop_types_body
} // mod loop_logic
pub use crate::loop_logic::RegistrationToken;
pub mod sys {
use vstd::prelude::*;
use std::{cell::RefCell, collections::HashMap, rc::Rc, sync::Arc, time::{Duration, Instant}};
use std::os::unix::io::{AsFd, AsRawFd, BorrowedFd as Borrowed, RawFd as Raw};
use crate::polling::{self, Event, Events, PollMode, Poller};
use crate::sources::timer::TimerWheel;
use crate::token::TokenInner;
use crate::RegistrationToken;
//@ include sys_tokens_body
//@ include sys_poll_body
} // mod sys
pub use crate::sys::{Interest, Mode, Poll, Readiness, Token, TokenFactory};
pub mod sources {
use vstd::prelude::*;
use std::{cell::{RefCell, RefMut}, ops::{BitOr, BitOrAssign}, rc::Rc};
pub use crate::loop_logic::EventIterator;
use crate::{sys::TokenFactory, Poll, Readiness, RegistrationToken, Token};
//@ include sources_postaction_body
//@ include sources_traits_body
//@ include sources_box_body
pub mod timer {
use vstd::prelude::*;
use vstd::multiset::Multiset;
use std::{cell::RefCell, collections::BinaryHeap, rc::Rc, time::{Duration, Instant}};
use std::cmp::Ordering;
use crate::ext_time::*;
use crate::{EventSource, Poll, PostAction, Readiness, Token, TokenFactory};
//@ include timer_types_body
} // mod timer
//@ include m_generic
//@ include m_transient
} // mod sources
pub use crate::sources::{PostAction, EventSource, generic, transient};
