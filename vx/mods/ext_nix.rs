//@ region prelude_nix
/// Stand-in for the parts of the `nix` crate calloop's signal source touches (rule D5); every contract is ASSUMED. The
/// thread's blocked-signal set and the kernel's pending signals are process state: contracts see them only through the
/// monotone witnesses w_thread_blocked / w_thread_unblocked / w_signal_read (DESIGN 2.12).
pub mod nix {
    pub mod errno {
        use vstd::prelude::*;
        #[derive(Clone, Copy, Debug)]
        pub struct Errno { pub raw: i32 }
        impl vstd::std_specs::convert::FromSpecImpl<Errno> for std::io::Error {
            open spec fn obeys_from_spec() -> bool { false }
            uninterp spec fn from_spec(e: Errno) -> std::io::Error;
        }
        impl From<Errno> for std::io::Error {
            #[verifier::external_body]
            fn from(e: Errno) -> std::io::Error { unimplemented!() }
        }
    }
    pub mod sys {
        pub mod signal {
            use vstd::prelude::*;
            use crate::nix::errno::Errno;
            /// nix's signal enum, seen as its number
            #[derive(Clone, Copy, Debug)]
            pub struct Signal { pub num: i32 }
            #[verifier::external_body] #[derive(Clone, Copy, Debug)]
            pub struct SigSet { _p: () }
            /// a set of signals has been blocked / unblocked for the calling thread (monotone witnesses)
            pub uninterp spec fn w_thread_blocked(s: Set<int>) -> bool;
            pub uninterp spec fn w_thread_unblocked(s: Set<int>) -> bool;
            pub uninterp spec fn w_thread_unblock_called(s: Set<int>) -> bool;
            /// may-call side (verification device): thread_block REQUIRES it -- lets a caller state what must have happened
            /// before a set may be blocked (set_signals: the old set has been unblocked FIRST, otherwise a signal in both
            /// sets would end up unblocked)
            pub uninterp spec fn may_block(s: Set<int>) -> bool;
            /// may-call side for thread_unblock: which sets may be unblocked (a signal that stays configured never is)
            pub uninterp spec fn may_unblock(s: Set<int>) -> bool;
            impl SigSet {
                /// ASSUMED view: the set of signal numbers
                pub uninterp spec fn view(&self) -> Set<int>;
                #[verifier::external_body] pub fn empty() -> (r: SigSet) ensures r@ == Set::<int>::empty(), { unimplemented!() }
                #[verifier::external_body] pub fn add(&mut self, s: Signal) ensures final(self)@ == old(self)@.insert(s.num as int), { unimplemented!() }
                #[verifier::external_body] pub fn remove(&mut self, s: Signal) ensures final(self)@ == old(self)@.remove(s.num as int), { unimplemented!() }
                // (not used by the unchanged tree: parts of nix's SigSet API an edit may plausibly start to use)
                #[verifier::external_body] pub fn contains(&self, s: Signal) -> (r: bool) ensures r == self@.contains(s.num as int), { unimplemented!() }
                #[verifier::external_body] pub fn clear(&mut self) ensures final(self)@ == Set::<int>::empty(), { unimplemented!() }
                #[verifier::external_body] pub fn extend(&mut self, other: &SigSet) ensures final(self)@ == old(self)@.union(other@), { unimplemented!() }
                #[verifier::external_body] pub fn thread_block(&self) -> (r: Result<(), Errno>) requires may_block(self@), ensures r is Ok ==> w_thread_blocked(self@), { unimplemented!() }
                #[verifier::external_body] pub fn thread_unblock(&self) -> (r: Result<(), Errno>) requires may_unblock(self@), ensures r is Ok ==> w_thread_unblocked(self@), w_thread_unblock_called(self@), { unimplemented!() }
            }
        }
        pub mod signalfd {
            use vstd::prelude::*;
            use crate::nix::errno::Errno;
            use crate::nix::sys::signal::SigSet;
            /// (libc::signalfd_siginfo: the fields a caller can look at -- plain data, no invariant)
            #[derive(Clone, Copy, Debug)]
            pub struct siginfo { pub ssi_signo: u32, pub ssi_errno: i32, pub ssi_code: i32, pub ssi_pid: u32, pub ssi_uid: u32, pub ssi_fd: i32, pub ssi_status: i32 }
            #[derive(Clone, Copy)]
            pub struct SfdFlags { pub bits: i32 }
            impl SfdFlags {
                pub const SFD_NONBLOCK: SfdFlags = SfdFlags { bits: 0x800 };
                pub const SFD_CLOEXEC: SfdFlags = SfdFlags { bits: 0x80000 };
            }
            impl vstd::std_specs::ops::BitOrSpecImpl for SfdFlags {
                open spec fn obeys_bitor_spec() -> bool { false }
                open spec fn bitor_req(self, rhs: SfdFlags) -> bool { true }
                uninterp spec fn bitor_spec(self, rhs: SfdFlags) -> SfdFlags;
            }
            impl std::ops::BitOr for SfdFlags {
                type Output = SfdFlags;
                #[verifier::external_body]
                fn bitor(self, rhs: SfdFlags) -> (r: SfdFlags) { unimplemented!() }
            }
            #[verifier::external_body] #[derive(Debug)]
            pub struct SignalFd { _p: () }
            /// a pending instance of a signal has been read from a signalfd (it is consumed by the read)
            pub uninterp spec fn w_signal_read(i: siginfo) -> bool;
            /// a read on a descriptor with this mask has answered "nothing pending"
            pub uninterp spec fn w_none_pending(mask: Set<int>) -> bool;
            impl SignalFd {
                /// ASSUMED view: the signal set the descriptor reports
                pub uninterp spec fn mask(&self) -> Set<int>;
                #[verifier::external_body]
                pub fn with_flags(mask: &SigSet, flags: SfdFlags) -> (r: Result<SignalFd, Errno>) ensures r matches Ok(f) ==> f.mask() == mask@, { unimplemented!() }
                #[verifier::external_body]
                pub fn set_mask(&mut self, mask: &SigSet) -> (r: Result<(), Errno>)
                    ensures r is Ok ==> final(self).mask() == mask@, r is Err ==> final(self).mask() == old(self).mask(),
                { unimplemented!() }
                #[verifier::external_body]
                pub fn read_signal(&mut self) -> (r: Result<Option<siginfo>, Errno>)
                    ensures final(self).mask() == old(self).mask(), r matches Ok(Some(i)) ==> w_signal_read(i), r matches Ok(None) ==> w_none_pending(old(self).mask()),
                { unimplemented!() }
            }
            impl std::os::fd::AsRawFd for SignalFd {
                #[verifier::external_body]
                fn as_raw_fd(&self) -> std::os::fd::RawFd { unimplemented!() }
            }
        }
    }
}
