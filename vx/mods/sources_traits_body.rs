//@ open src/sources/mod.rs / trait EventSource
//@ item src/sources/mod.rs / trait EventSource / type Event props=C18
//@ enditem
//@ item src/sources/mod.rs / trait EventSource / type Metadata props=C18
//@ enditem
//@ item src/sources/mod.rs / trait EventSource / type Ret props=C18
//@ enditem
//@ item src/sources/mod.rs / trait EventSource / type Error props=C18
//@ rw R5 1 <<: Into<Box<dyn std::error::Error + Sync + Send>>>> => <<>>
//@ enditem
//@ region eventsource_protocol_decls props=C18,C01,C07
    // ---- ghost interface (rule A1): each implementor defines these; `obeys_protocol::<T>()` below ties
    // them to the documented registration protocol for sources that are used as children.
    /// type invariant of the implementor
    spec fn wf(&self) -> bool;
    /// the source is currently registered with the poll
    spec fn registered(&self) -> bool;
    spec fn register_req(&self) -> bool;
    spec fn register_ens(o: &Self, n: &Self, ok: bool) -> bool;
    spec fn reregister_req(&self) -> bool;
    spec fn reregister_ens(o: &Self, n: &Self, ok: bool) -> bool;
    spec fn unregister_req(&self) -> bool;
    spec fn unregister_ens(o: &Self, n: &Self, ok: bool) -> bool;
    spec fn process_req(&self) -> bool;
    /// the source may hand event `e` to the user callback while processing (readiness, token)
    spec fn may_call(&self, readiness: Readiness, token: Token, e: Self::Event) -> bool;
    /// what process_events needs to know about the callback: each implementor defines it as
    /// `forall e, m. self.may_call(readiness, token, e) ==> call_requires(callback, (e, m))`, so that the
    /// callback is *callable only* for events allowed by may_call. (Stated per implementor and not once in
    /// the trait because Verus 0.2026.09.13 does not normalise `Self::Event` inside an inherited
    /// `call_requires` for generic impls.)
    spec fn cb_req<CbF: FnMut(Self::Event, &mut Self::Metadata) -> Self::Ret>(&self, readiness: Readiness, token: Token, callback: CbF) -> bool;
    spec fn process_ens(o: &Self, n: &Self, readiness: Readiness, token: Token, r: Result<PostAction, Self::Error>) -> bool;
//@ endregion
//@ item src/sources/mod.rs / trait EventSource / fn process_events props=C18,C01 ret=r
//@ rw R8 1 <<process_events<F>>> => <<process_events<CbF>>>
//@ rw R8 1 <<callback: F,>> => <<callback: CbF,>>
//@ rw R8 1 <<F: FnMut(Self::Event>> => <<CbF: FnMut(Self::Event>>
//@ spec
        requires
            old(self).process_req(),
            old(self).cb_req(readiness, token, callback),
        ensures
            Self::process_ens(old(self), final(self), readiness, token, r),
//@ enditem
//@ item src/sources/mod.rs / trait EventSource / fn register props=C18,C01 ret=r
//@ spec
        requires old(self).register_req(),
        ensures Self::register_ens(old(self), final(self), r is Ok),
                final(token_factory).reg() == old(token_factory).reg(),
//@ enditem
//@ item src/sources/mod.rs / trait EventSource / fn reregister props=C18,C01 ret=r
//@ spec
        requires old(self).reregister_req(),
        ensures Self::reregister_ens(old(self), final(self), r is Ok),
                final(token_factory).reg() == old(token_factory).reg(),
//@ enditem
//@ item src/sources/mod.rs / trait EventSource / fn unregister props=C18,C01 ret=r
//@ spec
        requires old(self).unregister_req(),
        ensures Self::unregister_ens(old(self), final(self), r is Ok),
//@ enditem
//@ item src/sources/mod.rs / trait EventSource / const NEEDS_EXTRA_LIFECYCLE_EVENTS props=C14
//@ enditem
//@ item src/sources/mod.rs / trait EventSource / fn before_sleep props=C14
//@ enditem
//@ item src/sources/mod.rs / trait EventSource / fn before_handle_events props=C14
//@ enditem
//@ close

//@ region eventsource_protocol props=C18,C01,C07
/// The documented registration protocol for a source used as a child of a composite source
/// (ASSUMED for arbitrary `T`, PROVED for Generic and Timer):
///  * register may be called on a well-formed unregistered source; it ends registered iff it returns Ok
///  * unregister / reregister may be called on a registered source; unregister ends unregistered iff Ok,
///    a failed call leaves the registration state as it was
///  * process_events keeps wf and the registration state
pub open spec fn obeys_protocol<T: EventSource>() -> bool {
    &&& forall|s: T| s.wf() && !s.registered() ==> #[trigger] s.register_req()
    &&& forall|s: T| s.wf() && s.registered() ==> #[trigger] s.reregister_req()
    &&& forall|s: T| s.wf() && s.registered() ==> #[trigger] s.unregister_req()
    &&& forall|s: T| s.wf() ==> #[trigger] s.process_req()
    &&& forall|o: T, n: T, ok: bool| o.wf() && !o.registered() && #[trigger] T::register_ens(&o, &n, ok) ==> n.wf() && (n.registered() <==> ok)
    &&& forall|o: T, n: T, ok: bool| o.wf() && o.registered() && #[trigger] T::reregister_ens(&o, &n, ok) ==> n.wf() && n.registered()
    &&& forall|o: T, n: T, ok: bool| o.wf() && o.registered() && #[trigger] T::unregister_ens(&o, &n, ok) ==> n.wf() && (n.registered() <==> !ok)
    &&& forall|o: T, n: T, rd: Readiness, tk: Token, r: Result<PostAction, T::Error>| o.wf() && #[trigger] T::process_ens(&o, &n, rd, tk, r) ==> n.wf() && (n.registered() <==> o.registered())
}
//@ endregion
