//@ item src/sources/mod.rs / enum PostAction props=C09
//@ enditem

//@ region postaction_specs props=C09
/// the property's algebra: the common value when both are equal, Reregister otherwise
pub open spec fn combine(a: PostAction, b: PostAction) -> PostAction {
    if a == b { a } else { PostAction::Reregister }
}
impl vstd::std_specs::cmp::PartialEqSpecImpl for PostAction {
    open spec fn obeys_eq_spec() -> bool { true }
    open spec fn eq_spec(&self, other: &PostAction) -> bool { *self == *other }
}
impl vstd::std_specs::ops::BitOrSpecImpl for PostAction {
    open spec fn obeys_bitor_spec() -> bool { true }
    open spec fn bitor_req(self, rhs: PostAction) -> bool { true }
    open spec fn bitor_spec(self, rhs: PostAction) -> PostAction { combine(self, rhs) }
}
impl vstd::std_specs::ops::BitOrAssignSpecImpl for PostAction {
    open spec fn obeys_bitor_assign_spec() -> bool { true }
    open spec fn bitor_assign_req(&self, rhs: PostAction) -> bool { true }
    open spec fn bitor_assign_spec(&self, rhs: PostAction) -> &PostAction { &combine(*self, rhs) }
}
//@ endregion

//@ open src/sources/mod.rs / impl BitOr for PostAction
//@ item src/sources/mod.rs / impl BitOr for PostAction / type Output props=C09
//@ enditem
//@ item src/sources/mod.rs / impl BitOr for PostAction / fn bitor props=C09 ret=r
//@ spec
        ensures r == combine(self, rhs),
//@ enditem
//@ close

//@ open src/sources/mod.rs / impl BitOrAssign for PostAction
//@ item src/sources/mod.rs / impl BitOrAssign for PostAction / fn bitor_assign props=C09
//@ spec
        ensures *final(self) == combine(*old(self), rhs),
//@ enditem
//@ close
