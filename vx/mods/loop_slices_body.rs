//@ item src/loop_logic.rs / type IdleCallback props=C13
//@ enditem
//@ item src/loop_logic.rs / struct LoopInner props=C15,C06
//@ pre
#[verifier::reject_recursive_types(Data)]
//@ enditem
//@ item src/loop_logic.rs / struct LoopHandle props=C15,C06
//@ pre
#[verifier::reject_recursive_types(Data)]
//@ enditem

//@ region loop_slice_specs props=C15,C06,C01
/// ASSUMPTION carrier surfaced from the dispatcher layer (DESIGN 1.3): wrapped sources accept the calls.
pub closed spec fn all_accept<Data>() -> bool {
    forall|d: Rc<dyn EventDispatcher<Data>>| #[trigger] d.accepts_calls()
}
//@ endregion

impl<'l, Data> LoopHandle<'l, Data> {
//@ slice src/loop_logic.rs / impl LoopHandle<'l, Data> / fn register_dispatcher :: after <<let mut poll = self.inner.poll.borrow_mut();>> props=C15,C06,C01 name=LoopHandle::register_dispatcher::after_borrows
//@ sig
/// S1 slice of LoopHandle::register_dispatcher: everything after the two RefCell borrows. Free variables become
/// parameters: `sources` / `poll` (in the real code RefMut<SourceList> / RefMut<Poll>; here the &mut they
/// dereference to), `dispatcher`, `self`. Dropped: the two `borrow_mut()` statements.
fn register_dispatcher_after_borrows<S>(&self, sources: &mut SourceList<'l, Data>, mut poll: &mut Poll, dispatcher: Dispatcher<'l, S, Data>) -> (r: crate::Result<RegistrationToken>)
    where S: EventSource + 'l,
//@ spec
    requires
        old(sources).wf(), old(sources)@.len() < 0x1_0000_0000,
        all_accept::<Data>(),
    ensures
        final(sources).wf(),
        // the slot list only ever grows by the one slot vacant_entry may push, and keeps it (with its
        // generation) whether or not registration succeeds: a rejected source's token is never handed out again
        final(sources)@.len() == old(sources)@.len() || final(sources)@.len() == old(sources)@.len() + 1,
        (exists|j: int| old(sources).first_vacant(j)) ==> final(sources)@.len() == old(sources)@.len(),
        match r {
            // failed registration: the loop's slot list is as if the call had not been made (C15):
            // every slot that was occupied keeps token and dispatcher, everything else is vacant
            Err(_) => forall|i: int| 0 <= i < final(sources)@.len() ==>
                if i < old(sources)@.len() && !old(sources)@[i].vacant() { #[trigger] final(sources)@[i] == old(sources)@[i] } else { final(sources)@[i].vacant() },
            // success: the returned token addresses a now-occupied slot that was vacant or new; every other slot is untouched
            Ok(t) => {
                &&& t.tok().ssub() == 0
                &&& final(sources).lookup(t.tok()) == Some(t.tok().sid())
                &&& !final(sources)@[t.tok().sid()].vacant()
                &&& (t.tok().sid() < old(sources)@.len() ==> old(sources)@[t.tok().sid()].vacant())
                &&& forall|i: int| 0 <= i < old(sources)@.len() && i != t.tok().sid() ==> #[trigger] final(sources)@[i] == old(sources)@[i]
            },
        },
//@ endslice
}

//@ item src/loop_logic.rs / struct Signals props=C11
//@ pre
#[verifier::external_body]
//@ enditem
//@ item src/loop_logic.rs / struct EventLoop props=C09,C01
//@ pre
#[verifier::reject_recursive_types(Data)]
//@ enditem

impl<'l, Data> EventLoop<'l, Data> {
//@ slice src/loop_logic.rs / impl EventLoop<'l, Data> / fn dispatch_events :: loopbody <<for event in>> props=C09,C01,C14,C06 name=EventLoop::dispatch_events::per_event_body
//@ sig
/// S1 slice of EventLoop::dispatch_events: the body of the `for event in ..` loop (one event of the batch).
/// Free variables `event`, `data`, `self` become parameters; the loop head (Vec::drain().chain(), unsupported by
/// Verus) and everything before it are dropped. All loop state lives in RefCells/Cells behind `&self` and is
/// OPAQUE here (DESIGN 1.4): what is decided are the obligations at call sites and the local data flow.
fn dispatch_events_per_event_body(&mut self, event: PollEvent, data: &mut Data) -> (r: crate::Result<()>)
//@ spec
    requires all_accept::<Data>(),
//@ entry
    // ghost state: has the loop-global deferred-action cell been reset for this event, and what was in it
    let ghost mut reset_done = false;
//@ before <<let mut ret =>>
            // C09 ("...including when event processing returns an error"): the cell is reset BEFORE a processing
            // error can be propagated out of this body (defect F3, fixed in 0605ec0)
            assert(reset_done); /*@props C09*/
//@ after <<let mut ret =>>
            let ghost ret0 = ret;
//@ after <<.pending_action .replace(PostAction::Continue)>>
            proof { reset_done = true; }
//@ before <<match ret {>>
            // C09: the deferred request is taken out of (and cleared from) the loop-global cell on EVERY path, so it
            // can never be carried over to a later event or to another source
            assert(reset_done); /*@props C09*/
            // C09: an explicit non-Continue return takes precedence over whatever was deferred
            assert(!(ret0 is Continue) ==> ret == ret0); /*@props C09*/
            // C01/C09/C14: every action below is applied to the source the event belongs to: the lookup key and the
            // registration token handed to reregister/unregister are the event token with the sub-id cleared
            assert(reg_token == event.token.inner.forget()); /*@props C01,C09,C14*/
//@ tail
    Ok(())
//@ endslice
}
