//@ include loop_structs_body
//@ region loop_slice_specs props=C15,C06,C01,C16,C07,C09,C14,C02
/// ASSUMPTION carrier surfaced from the dispatcher layer (DESIGN 1.3): wrapped sources accept the calls.
pub closed spec fn all_accept<Data>() -> bool {
    forall|d: Rc<dyn EventDispatcher<Data>>| #[trigger] d.accepts_calls()
}
//@ endregion

impl<'l, Data> LoopHandle<'l, Data> {
//@ slice src/loop_logic.rs / impl LoopHandle<'l, Data> / fn register_dispatcher :: after <<let mut poll = self.inner.poll.borrow_mut();>> props=C15,C06,C01 name=LoopHandle::register_dispatcher::after_borrows
//@ sig
/// S1 slice of LoopHandle::register_dispatcher: everything after the two RefCell borrows. Free variables become
/// parameters: `sources` / `poll` (in the real code RefMut<SourceList> / RefMut<Poll>; here the &mut they
/// dereference to), `dispatcher`, `self`. Dropped: the two `borrow_mut()` statements.
fn register_dispatcher_after_borrows<S>(&self, sources: &mut SourceList<'l, Data>, mut poll: &mut Poll, dispatcher: Dispatcher<'l, S, Data>) -> (r: crate::Result<RegistrationToken>)
    where S: EventSource + 'l,
//@ spec
    requires
        old(sources).wf(), old(sources)@.len() < 0x1_0000_0000,
        all_accept::<Data>(),
    ensures
        final(sources).wf(),
        // the slot list only ever grows by the one slot vacant_entry may push, and keeps it (with its
        // generation) whether or not registration succeeds: a rejected source's token is never handed out again
        final(sources)@.len() == old(sources)@.len() || final(sources)@.len() == old(sources)@.len() + 1,
        (exists|j: int| old(sources).first_vacant(j)) ==> final(sources)@.len() == old(sources)@.len(),
        match r {
            // failed registration: the loop's slot list is as if the call had not been made (C15):
            // every slot that was occupied keeps token and dispatcher, everything else is vacant
            Err(_) => forall|i: int| 0 <= i < final(sources)@.len() ==>
                if i < old(sources)@.len() && !old(sources)@[i].vacant() { #[trigger] final(sources)@[i] == old(sources)@[i] } else { final(sources)@[i].vacant() },
            // success: the returned token addresses a now-occupied slot that was vacant or new; every other slot is untouched
            Ok(t) => {
                &&& t.tok().ssub() == 0
                &&& final(sources).lookup(t.tok()) == Some(t.tok().sid())
                &&& !final(sources)@[t.tok().sid()].vacant()
                &&& (t.tok().sid() < old(sources)@.len() ==> old(sources)@[t.tok().sid()].vacant())
                &&& forall|i: int| 0 <= i < old(sources)@.len() && i != t.tok().sid() ==> #[trigger] final(sources)@[i] == old(sources)@[i]
            },
        },
//@ endslice
}

//@ item src/loop_logic.rs / struct Signals props=C11
//@ enditem
//@ item src/loop_logic.rs / struct EventLoop props=C09,C01
//@ pre
#[verifier::reject_recursive_types(Data)]
//@ enditem

impl<'l, Data> EventLoop<'l, Data> {
//@ slice src/loop_logic.rs / impl EventLoop<'l, Data> / fn dispatch_events :: loopbody <<for event in>> props=C09,C01,C14,C06,C02,C15,C16,C07 name=EventLoop::dispatch_events::per_event_body
//@ rw R10 1/2 <<self.handle.inner.sources.borrow()>> => <<sources_at_lookup>>
//@ rw R10 2/2 <<self.handle.inner.sources.borrow()>> => <<sources>>
//@ rw R10 1 <<self.handle.inner.sources.borrow_mut()>> => <<sources>>
//@ rw R10 * <<&mut self.handle.inner.poll.borrow_mut()>> => <<&mut *poll>>
//@ rw R10 * <<= self.handle.inner.poll.borrow_mut();>> => <<= &mut *poll;>>
//@ rw R10 * <<self .handle .inner .sources_with_additional_lifecycle_events .borrow_mut()>> => <<(*extra)>>
//@ closure <<|entry| entry.source.clone()>>
-> (c: Option<Rc<dyn EventDispatcher<Data> + 'l>>) ensures c == entry.disp()
//@ closure? <<|entry| entry.source.is_none()>>
-> (b: bool) ensures b == entry.vacant()
//@ sig
/// S1 slice of EventLoop::dispatch_events: the body of the `for event in ..` loop (one event of the batch).
/// Free variables `event`, `data`, `self` become parameters; the loop head (Vec::drain().chain(), unsupported by
/// Verus) and everything before it are dropped. Rule R10: each RefCell borrow of a loop cell becomes a parameter
/// standing for the borrowed value: `sources_at_lookup` is the slot list as it is when the event is looked up
/// (BEFORE user code runs in process_events), `sources` is the slot list as it is when the post-action is applied
/// (AFTER process_events -- user code may have changed it arbitrarily in between, hence two unrelated parameters);
/// `poll`/`extra` are borrowed only after process_events has returned. `first_error` is the local of dispatch_events that
/// remembers the first error of the batch (since the repair of F10 an error no longer ends the loop); it is passed in by
/// value and its new value is what the slice returns.
fn dispatch_events_per_event_body(&mut self, sources_at_lookup: &SourceList<'l, Data>, sources: &mut SourceList<'l, Data>, mut poll: &mut Poll, extra: &mut AdditionalLifecycleEventsSet, event: PollEvent, data: &mut Data, mut first_error: Option<crate::Error>) -> (r: Option<crate::Error>)
//@ spec
    requires all_accept::<Data>(), sources_at_lookup.wf(), old(sources).wf(),
    ensures
        final(sources).wf(), final(sources)@.len() == old(sources)@.len(),
        // C15/C02 (F10): an error of this event's source does not end the batch (this body has no early exit) and is not
        // lost: the FIRST error of the batch is kept for dispatch_events to return once every event has been handled
        first_error is Some ==> r == first_error,
        // C09 / C01: whatever the source returned or requested, nothing is applied to ANY OTHER source: every other
        // slot keeps its dispatcher and generation, every other entry of the lifecycle set stays
        forall|k: int| 0 <= k < old(sources)@.len() && k != event.token.inner.forget().sid() ==> #[trigger] final(sources)@[k] == old(sources)@[k],
        event.token.inner.forget().sid() < old(sources)@.len() ==> final(sources)@[event.token.inner.forget().sid()].tok() == old(sources)@[event.token.inner.forget().sid()].tok(),
        extra_frame(old(extra), final(extra), RegistrationToken::of(event.token.inner.forget())),
        // C01 / C06: an event whose (generation-checked) token addresses no occupied slot -- a removed source, or a
        // slot that has since been reused -- is dropped without touching anything
        (sources_at_lookup.lookup(event.token.inner.forget()) is None || sources_at_lookup@[event.token.inner.forget().sid()].vacant())
            ==> r == first_error && final(sources)@ == old(sources)@ && final(extra)@ == old(extra)@,
        // C02: an event for a live source IS handed to that source's dispatcher (must-call witness) ...
        sources_at_lookup.lookup(event.token.inner.forget()) is Some ==> (sources_at_lookup@[event.token.inner.forget().sid()].disp() matches Some(d) ==> {
            &&& d.w_processed(event.readiness, event.token)
            // C09/C15 (stated on the whole body, so that it holds for EVERY way out of it -- also an early end of the iteration
            // on a processing error): once a source has been processed, whatever it deferred has been taken out of the
            // loop-wide cell and the cell reset; nothing is carried over to a later event or another source
            &&& crate::ext::cell_was_set(&old(self).handle.inner.pending_action, PostAction::Continue)
            // C06: ... and if the source is gone from its slot when processing is over (it removed itself, returned
            // Remove, or the slot was reused meanwhile) it has been asked to unregister before the loop lets go of it
            &&& ((final(sources).lookup(event.token.inner.forget()) is None || final(sources)@[event.token.inner.forget().sid()].vacant()))
                    ==> d.w_unregister_called(RegistrationToken::of(event.token.inner.forget()))
            // C14/C15: ... and its lifecycle entry does not outlive it: the dispatcher confirmed the unregistration, or the entry
            // has been dropped here (defect F11: a FAILING unregister used to leave it behind => `unreachable!()` next dispatch)
            &&& ((final(sources).lookup(event.token.inner.forget()) is None || final(sources)@[event.token.inner.forget().sid()].vacant()))
                    ==> (!final(extra)@.contains(RegistrationToken::of(event.token.inner.forget())) || d.w_unregistered(RegistrationToken::of(event.token.inner.forget())) || d.w_deferred())
        }),
//@ entry
    let ghost sources0 = *sources;
    let ghost extra0 = *extra;
    proof { broadcast use RegistrationToken::lemma_of, TokenInner::lemma_forget_idem, TokenInner::lemma_forget; }
//@ after <<let result = disp.process_events(>>
            let ghost res0 = result;
//@ before <<match ret {>>
            // C09: the deferred request is taken out of (and cleared from) the loop-global cell on EVERY path, so it
            // can never be carried over to a later event or to another source
            assert(crate::ext::cell_was_set(&self.handle.inner.pending_action, PostAction::Continue)); /*@props C09,C15,C07,C02*/
            // C09: an explicit non-Continue return takes precedence over whatever was deferred
            assert(res0 matches Ok(a0) ==> (!(a0 is Continue) ==> ret == a0)); /*@props C09,C06*/
            // C15 (F10): a processing error is recorded, and nothing is applied for that event
            assert(res0 is Err ==> (first_error is Some && ret is Continue)); /*@props C15,C02*/
            // C01/C09/C14: every action below is applied to the source the event belongs to: the lookup key and the
            // registration token handed to reregister/unregister are the event token with the sub-id cleared
            assert(reg_token == event.token.inner.forget()); /*@props C01,C09,C14,C07*/
//@ after <<match ret {>>
            // C09: the effective action has been applied by now, to this source: Reregister re-registers (or is
            // answered "deferred"), Disable asks it to unregister, Remove empties its slot, Continue changes nothing
            // (a FAILED re-registration is recorded as the batch's error)
            assert(ret is Reregister ==> disp.w_reregistered(RegistrationToken::of(reg_token)) || disp.w_deferred() || first_error is Some); /*@props C09*/
            assert(ret is Disable ==> disp.w_unregister_called(RegistrationToken::of(reg_token))); /*@props C09,C07*/
            assert(ret is Remove ==> sources.lookup(reg_token) is None || sources@[reg_token.sid()].vacant()); /*@props C09,C06*/
            assert(ret is Continue ==> *sources == sources0 && *extra == extra0); /*@props C09*/
//@ tail
    first_error
//@ alt
//@ rw R10 1/2 <<self.handle.inner.sources.borrow()>> => <<sources_at_lookup>>
//@ rw R10 2/2 <<self.handle.inner.sources.borrow()>> => <<sources>>
//@ rw R10 1 <<self.handle.inner.sources.borrow_mut()>> => <<sources>>
//@ rw R10 * <<&mut self.handle.inner.poll.borrow_mut()>> => <<&mut *poll>>
//@ rw R10 * <<= self.handle.inner.poll.borrow_mut();>> => <<= &mut *poll;>>
//@ rw R10 * <<self .handle .inner .sources_with_additional_lifecycle_events .borrow_mut()>> => <<(*extra)>>
//@ closure <<|entry| entry.source.clone()>>
-> (c: Option<Rc<dyn EventDispatcher<Data> + 'l>>) ensures c == entry.disp()
//@ closure? <<|entry| entry.source.is_none()>>
-> (b: bool) ensures b == entry.vacant()
//@ sig
/// S1 slice of EventLoop::dispatch_events: the body of the `for event in ..` loop (one event of the batch).
/// Free variables `event`, `data`, `self` become parameters; the loop head (Vec::drain().chain(), unsupported by
/// Verus) and everything before it are dropped. Rule R10: each RefCell borrow of a loop cell becomes a parameter
/// standing for the borrowed value: `sources_at_lookup` is the slot list as it is when the event is looked up
/// (BEFORE user code runs in process_events), `sources` is the slot list as it is when the post-action is applied
/// (AFTER process_events -- user code may have changed it arbitrarily in between, hence two unrelated parameters);
/// `poll`/`extra` are borrowed only after process_events has returned.
fn dispatch_events_per_event_body(&mut self, sources_at_lookup: &SourceList<'l, Data>, sources: &mut SourceList<'l, Data>, mut poll: &mut Poll, extra: &mut AdditionalLifecycleEventsSet, event: PollEvent, data: &mut Data) -> (r: crate::Result<()>)
//@ spec
    requires all_accept::<Data>(), sources_at_lookup.wf(), old(sources).wf(),
    ensures
        final(sources).wf(), final(sources)@.len() == old(sources)@.len(),
        // C09 / C01: whatever the source returned or requested, nothing is applied to ANY OTHER source: every other
        // slot keeps its dispatcher and generation, every other entry of the lifecycle set stays
        forall|k: int| 0 <= k < old(sources)@.len() && k != event.token.inner.forget().sid() ==> #[trigger] final(sources)@[k] == old(sources)@[k],
        event.token.inner.forget().sid() < old(sources)@.len() ==> final(sources)@[event.token.inner.forget().sid()].tok() == old(sources)@[event.token.inner.forget().sid()].tok(),
        extra_frame(old(extra), final(extra), RegistrationToken::of(event.token.inner.forget())),
        // C01 / C06: an event whose (generation-checked) token addresses no occupied slot -- a removed source, or a
        // slot that has since been reused -- is dropped without touching anything
        (sources_at_lookup.lookup(event.token.inner.forget()) is None || sources_at_lookup@[event.token.inner.forget().sid()].vacant())
            ==> r is Ok && final(sources)@ == old(sources)@ && final(extra)@ == old(extra)@,
        // C02: an event for a live source IS handed to that source's dispatcher (must-call witness) ...
        sources_at_lookup.lookup(event.token.inner.forget()) is Some ==> (sources_at_lookup@[event.token.inner.forget().sid()].disp() matches Some(d) ==> {
            &&& d.w_processed(event.readiness, event.token)
            // C06: ... and if the source is gone from its slot when processing is over (it removed itself, returned
            // Remove, or the slot was reused meanwhile) it has been asked to unregister before the loop lets go of it
            &&& (r is Ok && (final(sources).lookup(event.token.inner.forget()) is None || final(sources)@[event.token.inner.forget().sid()].vacant()))
                    ==> d.w_unregister_called(RegistrationToken::of(event.token.inner.forget()))
            // C14/C15: ... and its lifecycle entry does not outlive it: the dispatcher confirmed the unregistration, or the entry
            // has been dropped here (defect F11: a FAILING unregister used to leave it behind => `unreachable!()` next dispatch)
            &&& (r is Ok && (final(sources).lookup(event.token.inner.forget()) is None || final(sources)@[event.token.inner.forget().sid()].vacant()))
                    ==> (!final(extra)@.contains(RegistrationToken::of(event.token.inner.forget())) || d.w_unregistered(RegistrationToken::of(event.token.inner.forget())) || d.w_deferred())
        }),
//@ entry
    // (overlay for the shape BEFORE the repair of F10 -- `?` exits inside the body: kept so that the defect is reported,
    //  not merely undecided, should it return)
    let ghost sources0 = *sources;
    let ghost extra0 = *extra;
    proof { broadcast use RegistrationToken::lemma_of, TokenInner::lemma_forget_idem, TokenInner::lemma_forget; }
//@ after <<let result = disp.process_events(>>
            let ghost res0 = result;
//@ before <<result?>>
            // C09 / C15 ("...including when event processing returns an error"): the cell is reset BEFORE a processing
            // error can be propagated out of this body (defect F3, fixed in 0605ec0)
            assert(crate::ext::cell_was_set(&self.handle.inner.pending_action, PostAction::Continue)); /*@props C09,C15,C07,C02*/
//@ before <<match ret {>>
            // C09: the deferred request is taken out of (and cleared from) the loop-global cell on EVERY path, so it
            // can never be carried over to a later event or to another source
            assert(crate::ext::cell_was_set(&self.handle.inner.pending_action, PostAction::Continue)); /*@props C09,C15,C07,C02*/
            // C09: an explicit non-Continue return takes precedence over whatever was deferred
            assert(res0 matches Ok(a0) ==> (!(a0 is Continue) ==> ret == a0)); /*@props C09,C06*/
            // C01/C09/C14: every action below is applied to the source the event belongs to: the lookup key and the
            // registration token handed to reregister/unregister are the event token with the sub-id cleared
            assert(reg_token == event.token.inner.forget()); /*@props C01,C09,C14,C07*/
//@ after <<match ret {>>
            // C09: the effective action has been applied by now, to this source: Reregister re-registers (or is
            // answered "deferred"), Disable asks it to unregister, Remove empties its slot, Continue changes nothing
            assert(ret is Reregister ==> disp.w_reregistered(RegistrationToken::of(reg_token)) || disp.w_deferred()); /*@props C09*/
            assert(ret is Disable ==> disp.w_unregister_called(RegistrationToken::of(reg_token))); /*@props C09,C07*/
            assert(ret is Remove ==> sources.lookup(reg_token) is None || sources@[reg_token.sid()].vacant()); /*@props C09,C06*/
            assert(ret is Continue ==> *sources == sources0 && *extra == extra0); /*@props C09*/
//@ tail
    Ok(())
//@ alt
//@ rw R10 1/2 <<self.handle.inner.sources.borrow()>> => <<sources_at_lookup>>
//@ rw R10 2/2 <<self.handle.inner.sources.borrow()>> => <<sources>>
//@ rw R10 1 <<self.handle.inner.sources.borrow_mut()>> => <<sources>>
//@ rw R10 * <<&mut self.handle.inner.poll.borrow_mut()>> => <<&mut *poll>>
//@ rw R10 * <<= self.handle.inner.poll.borrow_mut();>> => <<= &mut *poll;>>
//@ rw R10 * <<self .handle .inner .sources_with_additional_lifecycle_events .borrow_mut()>> => <<(*extra)>>
//@ closure <<|entry| entry.source.clone()>>
-> (c: Option<Rc<dyn EventDispatcher<Data> + 'l>>) ensures c == entry.disp()
//@ closure? <<|entry| entry.source.is_none()>>
-> (b: bool) ensures b == entry.vacant()
//@ sig
/// S1 slice of EventLoop::dispatch_events: the body of the `for event in ..` loop (one event of the batch).
/// Free variables `event`, `data`, `self` become parameters; the loop head (Vec::drain().chain(), unsupported by
/// Verus) and everything before it are dropped. Rule R10: each RefCell borrow of a loop cell becomes a parameter
/// standing for the borrowed value: `sources_at_lookup` is the slot list as it is when the event is looked up
/// (BEFORE user code runs in process_events), `sources` is the slot list as it is when the post-action is applied
/// (AFTER process_events -- user code may have changed it arbitrarily in between, hence two unrelated parameters);
/// `poll`/`extra` are borrowed only after process_events has returned. `first_error` is the local of dispatch_events that
/// remembers the first error of the batch (since the repair of F10 an error no longer ends the loop); it is passed in by
/// value and its new value is what the slice returns.
fn dispatch_events_per_event_body(&mut self, sources_at_lookup: &SourceList<'l, Data>, sources: &mut SourceList<'l, Data>, mut poll: &mut Poll, extra: &mut AdditionalLifecycleEventsSet, event: PollEvent, data: &mut Data, mut first_error: Option<crate::Error>) -> (r: Option<crate::Error>)
//@ spec
    requires all_accept::<Data>(), sources_at_lookup.wf(), old(sources).wf(),
    ensures
        final(sources).wf(), final(sources)@.len() == old(sources)@.len(),
        // C15/C02 (F10): an error of this event's source does not end the batch (this body has no early exit) and is not
        // lost: the FIRST error of the batch is kept for dispatch_events to return once every event has been handled
        first_error is Some ==> r == first_error,
        // C09 / C01: whatever the source returned or requested, nothing is applied to ANY OTHER source: every other
        // slot keeps its dispatcher and generation, every other entry of the lifecycle set stays
        forall|k: int| 0 <= k < old(sources)@.len() && k != event.token.inner.forget().sid() ==> #[trigger] final(sources)@[k] == old(sources)@[k],
        event.token.inner.forget().sid() < old(sources)@.len() ==> final(sources)@[event.token.inner.forget().sid()].tok() == old(sources)@[event.token.inner.forget().sid()].tok(),
        extra_frame(old(extra), final(extra), RegistrationToken::of(event.token.inner.forget())),
        // C01 / C06: an event whose (generation-checked) token addresses no occupied slot -- a removed source, or a
        // slot that has since been reused -- is dropped without touching anything
        (sources_at_lookup.lookup(event.token.inner.forget()) is None || sources_at_lookup@[event.token.inner.forget().sid()].vacant())
            ==> r == first_error && final(sources)@ == old(sources)@ && final(extra)@ == old(extra)@,
        // C02: an event for a live source IS handed to that source's dispatcher (must-call witness) ...
        sources_at_lookup.lookup(event.token.inner.forget()) is Some ==> (sources_at_lookup@[event.token.inner.forget().sid()].disp() matches Some(d) ==> {
            &&& d.w_processed(event.readiness, event.token)
            // C09/C15 (stated on the whole body, so that it holds for EVERY way out of it -- also an early end of the iteration
            // on a processing error): once a source has been processed, whatever it deferred has been taken out of the
            // loop-wide cell and the cell reset; nothing is carried over to a later event or another source
            &&& crate::ext::cell_was_set(&old(self).handle.inner.pending_action, PostAction::Continue)
            // C06: ... and if the source is gone from its slot when processing is over (it removed itself, returned
            // Remove, or the slot was reused meanwhile) it has been asked to unregister before the loop lets go of it
            &&& ((final(sources).lookup(event.token.inner.forget()) is None || final(sources)@[event.token.inner.forget().sid()].vacant()))
                    ==> d.w_unregister_called(RegistrationToken::of(event.token.inner.forget()))
            // C14/C15: ... and its lifecycle entry does not outlive it: the dispatcher confirmed the unregistration, or the entry
            // has been dropped here (defect F11: a FAILING unregister used to leave it behind => `unreachable!()` next dispatch)
            &&& ((final(sources).lookup(event.token.inner.forget()) is None || final(sources)@[event.token.inner.forget().sid()].vacant()))
                    ==> (!final(extra)@.contains(RegistrationToken::of(event.token.inner.forget())) || d.w_unregistered(RegistrationToken::of(event.token.inner.forget())) || d.w_deferred())
        }),
//@ entry
    // (overlay for a body that does not keep the processing result in a local `result` -- e.g. it matches on the call
    //  directly and ends the iteration early on Err: the contract is the one of the first overlay)
    let ghost sources0 = *sources;
    let ghost extra0 = *extra;
    proof { broadcast use RegistrationToken::lemma_of, TokenInner::lemma_forget_idem, TokenInner::lemma_forget; }
//@ before <<match ret {>>
            assert(reg_token == event.token.inner.forget()); /*@props C01,C09,C14,C07*/
//@ after <<match ret {>>
            assert(ret is Reregister ==> disp.w_reregistered(RegistrationToken::of(reg_token)) || disp.w_deferred() || first_error is Some); /*@props C09*/
            assert(ret is Disable ==> disp.w_unregister_called(RegistrationToken::of(reg_token))); /*@props C09,C07*/
            assert(ret is Remove ==> sources.lookup(reg_token) is None || sources@[reg_token.sid()].vacant()); /*@props C09,C06*/
            assert(ret is Continue ==> *sources == sources0 && *extra == extra0); /*@props C09*/
//@ tail
    first_error
//@ endslice

//@ slice src/loop_logic.rs / impl EventLoop<'l, Data> / fn dispatch_events :: loopbody <<for (event, reg_token, opt_disp) in>> props=C01,C06,C09,C02,C07 optional name=EventLoop::dispatch_events::per_event_body_preresolved
//@ rw R10 1 <<self.handle.inner.sources.borrow()>> => <<sources>>
//@ rw R10 1 <<self.handle.inner.sources.borrow_mut()>> => <<sources>>
//@ rw R10 * <<&mut self.handle.inner.poll.borrow_mut()>> => <<&mut *poll>>
//@ rw R10 * <<= self.handle.inner.poll.borrow_mut();>> => <<= &mut *poll;>>
//@ rw R10 * <<self .handle .inner .sources_with_additional_lifecycle_events .borrow_mut()>> => <<(*extra)>>
//@ closure? <<|entry| entry.source.is_none()>>
-> (b: bool) ensures b == entry.vacant()
//@ sig
/// S1 slice for a shape the unchanged tree does not have but that independent seed agents wrote three times (an OPTIONAL
/// slice: skipped when no loop has this head): the dispatchers of the whole batch are resolved BEFORE the loop, under one
/// borrow of the slot list, and the loop runs over (event, reg_token, opt_disp) tuples. The body is held to the contract
/// of per_event_body, unchanged. `opt_disp` is a free variable: what was found in the slot when the batch was resolved --
/// user code (the callbacks of the earlier events of the batch) has run since, so nothing relates it to the slot list as
/// it is when this event's turn comes (`sources_at_lookup`, a ghost-only parameter here). ASSUMED (the dropped part that
/// builds the tuples is an iterator chain, outside Verus' reach): `reg_token` is the event's token with the sub-id
/// cleared. A body that looks the slot up again has a second `borrow()` site and is undecided, not reported.
fn dispatch_events_per_event_body_preresolved(&mut self, sources_at_lookup: &SourceList<'l, Data>, sources: &mut SourceList<'l, Data>, mut poll: &mut Poll, extra: &mut AdditionalLifecycleEventsSet, event: PollEvent, reg_token: TokenInner, opt_disp: Option<Rc<dyn EventDispatcher<Data> + 'l>>, data: &mut Data, mut first_error: Option<crate::Error>) -> (r: Option<crate::Error>)
//@ spec
    requires all_accept::<Data>(), sources_at_lookup.wf(), old(sources).wf(), reg_token == event.token.inner.forget(),
    ensures
        final(sources).wf(), final(sources)@.len() == old(sources)@.len(),
        // C15/C02 (F10): an error of this event's source does not end the batch (this body has no early exit) and is not
        // lost: the FIRST error of the batch is kept for dispatch_events to return once every event has been handled
        first_error is Some ==> r == first_error,
        // C09 / C01: whatever the source returned or requested, nothing is applied to ANY OTHER source: every other
        // slot keeps its dispatcher and generation, every other entry of the lifecycle set stays
        forall|k: int| 0 <= k < old(sources)@.len() && k != event.token.inner.forget().sid() ==> #[trigger] final(sources)@[k] == old(sources)@[k],
        event.token.inner.forget().sid() < old(sources)@.len() ==> final(sources)@[event.token.inner.forget().sid()].tok() == old(sources)@[event.token.inner.forget().sid()].tok(),
        extra_frame(old(extra), final(extra), RegistrationToken::of(event.token.inner.forget())),
        // C01 / C06: an event whose (generation-checked) token addresses no occupied slot -- a removed source, or a
        // slot that has since been reused -- is dropped without touching anything
        (sources_at_lookup.lookup(event.token.inner.forget()) is None || sources_at_lookup@[event.token.inner.forget().sid()].vacant())
            ==> r == first_error && final(sources)@ == old(sources)@ && final(extra)@ == old(extra)@,
        // C02: an event for a live source IS handed to that source's dispatcher (must-call witness) ...
        sources_at_lookup.lookup(event.token.inner.forget()) is Some ==> (sources_at_lookup@[event.token.inner.forget().sid()].disp() matches Some(d) ==> {
            &&& d.w_processed(event.readiness, event.token)
            // C09/C15 (stated on the whole body, so that it holds for EVERY way out of it -- also an early end of the iteration
            // on a processing error): once a source has been processed, whatever it deferred has been taken out of the
            // loop-wide cell and the cell reset; nothing is carried over to a later event or another source
            &&& crate::ext::cell_was_set(&old(self).handle.inner.pending_action, PostAction::Continue)
            // C06: ... and if the source is gone from its slot when processing is over (it removed itself, returned
            // Remove, or the slot was reused meanwhile) it has been asked to unregister before the loop lets go of it
            &&& ((final(sources).lookup(event.token.inner.forget()) is None || final(sources)@[event.token.inner.forget().sid()].vacant()))
                    ==> d.w_unregister_called(RegistrationToken::of(event.token.inner.forget()))
            // C14/C15: ... and its lifecycle entry does not outlive it: the dispatcher confirmed the unregistration, or the entry
            // has been dropped here (defect F11: a FAILING unregister used to leave it behind => `unreachable!()` next dispatch)
            &&& ((final(sources).lookup(event.token.inner.forget()) is None || final(sources)@[event.token.inner.forget().sid()].vacant()))
                    ==> (!final(extra)@.contains(RegistrationToken::of(event.token.inner.forget())) || d.w_unregistered(RegistrationToken::of(event.token.inner.forget())) || d.w_deferred())
        }),
//@ entry
    let ghost sources0 = *sources;
    let ghost extra0 = *extra;
    proof { broadcast use RegistrationToken::lemma_of, TokenInner::lemma_forget_idem, TokenInner::lemma_forget; }
//@ after <<let result = disp.process_events(>>
            let ghost res0 = result;
//@ before <<match ret {>>
            // C09: the deferred request is taken out of (and cleared from) the loop-global cell on EVERY path, so it
            // can never be carried over to a later event or to another source
            assert(crate::ext::cell_was_set(&self.handle.inner.pending_action, PostAction::Continue)); /*@props C09,C15,C07,C02*/
            // C09: an explicit non-Continue return takes precedence over whatever was deferred
            assert(res0 matches Ok(a0) ==> (!(a0 is Continue) ==> ret == a0)); /*@props C09,C06*/
            // C15 (F10): a processing error is recorded, and nothing is applied for that event
            assert(res0 is Err ==> (first_error is Some && ret is Continue)); /*@props C15,C02*/
            // C01/C09/C14: every action below is applied to the source the event belongs to: the lookup key and the
            // registration token handed to reregister/unregister are the event token with the sub-id cleared
            assert(reg_token == event.token.inner.forget()); /*@props C01,C09,C14,C07*/
//@ after <<match ret {>>
            // C09: the effective action has been applied by now, to this source: Reregister re-registers (or is
            // answered "deferred"), Disable asks it to unregister, Remove empties its slot, Continue changes nothing
            // (a FAILED re-registration is recorded as the batch's error)
            assert(ret is Reregister ==> disp.w_reregistered(RegistrationToken::of(reg_token)) || disp.w_deferred() || first_error is Some); /*@props C09*/
            assert(ret is Disable ==> disp.w_unregister_called(RegistrationToken::of(reg_token))); /*@props C09,C07*/
            assert(ret is Remove ==> sources.lookup(reg_token) is None || sources@[reg_token.sid()].vacant()); /*@props C09,C06*/
            assert(ret is Continue ==> *sources == sources0 && *extra == extra0); /*@props C09*/
//@ tail
    first_error
//@ endslice


//@ slice src/loop_logic.rs / impl EventLoop<'l, Data> / fn dispatch_events :: stmts <<for event in self.synthetic_events.drain(..).chain(events)>> .. <<for event in self.synthetic_events.drain(..).chain(events)>> props=C15,C02,C05,C17 name=EventLoop::dispatch_events::batch_loop
//@ rw R20 1 <<for event in self.synthetic_events.drain(..).chain(events)>> => <<for event in lit: batch>>
//@ rw R10 1/2 <<self.handle.inner.sources.borrow()>> => <<sources_at_lookup>>
//@ rw R10 2/2 <<self.handle.inner.sources.borrow()>> => <<sources>>
//@ rw R10 1 <<self.handle.inner.sources.borrow_mut()>> => <<sources>>
//@ rw R10 * <<&mut self.handle.inner.poll.borrow_mut()>> => <<&mut *poll>>
//@ rw R10 * <<= self.handle.inner.poll.borrow_mut();>> => <<= &mut *poll;>>
//@ rw R10 * <<self .handle .inner .sources_with_additional_lifecycle_events .borrow_mut()>> => <<(*extra)>>
//@ closure <<|entry| entry.source.clone()>>
-> (c: Option<Rc<dyn EventDispatcher<Data> + 'l>>) ensures c == entry.disp()
//@ closure? <<|entry| entry.source.is_none()>>
-> (b: bool) ensures b == entry.vacant()
//@ sig
/// S1 slice of EventLoop::dispatch_events: the WHOLE `for event in ..` statement (the per-event body is also verified on
/// its own, see per_event_body, with the full contract). Rule R20: the iterator expression of the loop head
/// (`Vec::drain(..).chain(..)`, which Verus cannot take) is replaced by a parameter `batch: Vec<PollEvent>` holding the
/// same sequence (synthetic events, then polled fd events, then expired timers). R10 as in per_event_body; the cell
/// parameters are shared by all iterations, so this slice states NOTHING that depends on their contents across
/// iterations -- its one clause is about the lookups made.
fn dispatch_events_batch_loop(&mut self, batch: Vec<PollEvent>, sources_at_lookup: &SourceList<'l, Data>, sources: &mut SourceList<'l, Data>, mut poll: &mut Poll, extra: &mut AdditionalLifecycleEventsSet, data: &mut Data, mut first_error: Option<crate::Error>) -> (r: Option<crate::Error>)
//@ spec
    requires all_accept::<Data>(), sources_at_lookup.wf(), old(sources).wf(),
    ensures
        // C02 / C15: EVERY event of the batch is looked up (generation-checked; a live one is then handed to its source, see
        // per_event_body) -- also the events behind one whose source returned an error: a failing source must not cost the
        // others their events or their already-popped timer expirations (defect F10, repaired: the loop has no early exit
        // any more; the first error is carried in `first_error` and returned after the loop).
        forall|k: int| 0 <= k < batch@.len() ==> SourceList::<Data>::looked_up((#[trigger] batch@[k]).token.inner.forget()),
//@ loop 1
        invariant
            all_accept::<Data>(), sources_at_lookup.wf(), sources.wf(),
            lit.seq() == batch@,
            forall|k: int| 0 <= k < lit.index@ ==> SourceList::<Data>::looked_up((#[trigger] batch@[k]).token.inner.forget()),
//@ tail
    first_error
//@ alt
//@ rw R20 1 <<for event in self.synthetic_events.drain(..).chain(events)>> => <<for event in lit: batch>>
//@ rw R10 1/2 <<self.handle.inner.sources.borrow()>> => <<sources_at_lookup>>
//@ rw R10 2/2 <<self.handle.inner.sources.borrow()>> => <<sources>>
//@ rw R10 1 <<self.handle.inner.sources.borrow_mut()>> => <<sources>>
//@ rw R10 * <<&mut self.handle.inner.poll.borrow_mut()>> => <<&mut *poll>>
//@ rw R10 * <<= self.handle.inner.poll.borrow_mut();>> => <<= &mut *poll;>>
//@ rw R10 * <<self .handle .inner .sources_with_additional_lifecycle_events .borrow_mut()>> => <<(*extra)>>
//@ closure <<|entry| entry.source.clone()>>
-> (c: Option<Rc<dyn EventDispatcher<Data> + 'l>>) ensures c == entry.disp()
//@ closure? <<|entry| entry.source.is_none()>>
-> (b: bool) ensures b == entry.vacant()
//@ sig
/// S1 slice of EventLoop::dispatch_events: the WHOLE `for event in ..` statement (the per-event body is also verified on
/// its own, see per_event_body, with the full contract). Rule R20: the iterator expression of the loop head
/// (`Vec::drain(..).chain(..)`, which Verus cannot take) is replaced by a parameter `batch: Vec<PollEvent>` holding the
/// same sequence (synthetic events, then polled fd events, then expired timers). R10 as in per_event_body; the cell
/// parameters are shared by all iterations, so this slice states NOTHING that depends on their contents across
/// iterations -- its one clause is about the lookups made.
fn dispatch_events_batch_loop(&mut self, batch: Vec<PollEvent>, sources_at_lookup: &SourceList<'l, Data>, sources: &mut SourceList<'l, Data>, mut poll: &mut Poll, extra: &mut AdditionalLifecycleEventsSet, data: &mut Data) -> (r: crate::Result<()>)
//@ spec
    requires all_accept::<Data>(), sources_at_lookup.wf(), old(sources).wf(),
    ensures
        // C02 / C15: EVERY event of the batch is looked up (generation-checked; a live one is then handed to its source, see
        // per_event_body) -- also the events behind one whose source returned an error: a failing source must not cost the
        // others their events or their already-popped timer expirations.  KNOWN FINDING F10: the three `?` exits.
        forall|k: int| 0 <= k < batch@.len() ==> SourceList::<Data>::looked_up((#[trigger] batch@[k]).token.inner.forget()),
//@ loop 1
        invariant
            all_accept::<Data>(), sources_at_lookup.wf(), sources.wf(),
            lit.seq() == batch@,
            forall|k: int| 0 <= k < lit.index@ ==> SourceList::<Data>::looked_up((#[trigger] batch@[k]).token.inner.forget()),
//@ tail
    Ok(())
//@ endslice

//@ slice src/loop_logic.rs / impl EventLoop<'l, Data> / fn dispatch_events :: after <<for event in self.synthetic_events.drain(..).chain(events)>> props=C15,C02 name=EventLoop::dispatch_events::result
//@ sig
/// S1 slice of EventLoop::dispatch_events: what follows the batch loop (its result).
fn dispatch_events_result(first_error: Option<crate::Error>) -> (r: crate::Result<()>)
//@ spec
    ensures
        // C15: the first error of the batch -- and nothing else -- is what the dispatch reports; no error, Ok
        first_error matches Some(e) ==> r == Err::<(), crate::Error>(e),
        first_error is None ==> r is Ok,
//@ endslice
}
