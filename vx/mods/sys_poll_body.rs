//@ item src/sys.rs / struct Poll props=C16
//@ enditem
//@ open src/sys.rs / impl Poll
//@ item src/sys.rs / impl Poll / fn register props=C16 sigonly ret=r
//@ enditem
//@ item src/sys.rs / impl Poll / fn reregister props=C16 sigonly ret=r
//@ enditem
//@ item src/sys.rs / impl Poll / fn unregister props=C16 sigonly ret=r
//@ enditem
//@ item src/sys.rs / impl Poll / fn poller props=C16 sigonly ret=r
//@ enditem
//@ close
