//@ item src/sys.rs / struct Poll props=C16
//@ rw R6 1 <<events: RefCell<Events>,>> => <<pub(crate) events: RefCell<Events>,>>
//@ rw R6 1 <<level_triggered: Option<RefCell<HashMap<usize, (Raw, polling::Event)>>>,>> => <<pub(crate) level_triggered: Option<RefCell<HashMap<usize, (Raw, polling::Event)>>>,>>
//@ enditem
//@ open src/sys.rs / impl Poll
//@ item src/sys.rs / impl Poll / fn register props=C16 sigonly ret=r
//@ enditem
//@ item src/sys.rs / impl Poll / fn reregister props=C16 sigonly ret=r
//@ enditem
//@ item src/sys.rs / impl Poll / fn unregister props=C16 sigonly ret=r
//@ enditem
//@ item src/sys.rs / impl Poll / fn poller props=C16 sigonly ret=r
//@ enditem
//@ close
