//@ item src/sys.rs / struct Poll props=C16
//@ rw R6 1 <<events: RefCell<Events>,>> => <<pub(crate) events: RefCell<Events>,>>
//@ rw R6 1 <<level_triggered: Option<RefCell<HashMap<usize, (Raw, polling::Event)>>>,>> => <<pub(crate) level_triggered: Option<RefCell<HashMap<usize, (Raw, polling::Event)>>>,>>
//@ enditem
//@ include sys_poll_real_specs
//@ region poll_witness props=C12,C14
impl Poll {
    /// monotone history witness (DESIGN 2.12): poll(timeout) has been called on this Poll with this timeout
    pub uninterp spec fn w_polled(&self, timeout: Option<Duration>) -> bool;
    /// the k-th poll attempt of the current dispatch was interrupted by a signal (EINTR)
    pub uninterp spec fn w_interrupted(&self, k: nat) -> bool;
    /// Identity stand-in for `poll(timeout)` that carries the number of the attempt as an erased ghost argument (device of
    /// DESIGN 2.12 for "again only after .."): the wait may be REPEATED only if the previous attempt was interrupted.
    #[verifier::external_body]
    pub(crate) fn poll_attempt(&self, Ghost(k): Ghost<nat>, timeout: Option<Duration>) -> (r: crate::Result<Vec<PollEvent>>)
        requires k == 0 || self.w_interrupted((k - 1) as nat),
        ensures self.w_polled(timeout),
                (r matches Err(crate::Error::IoError(e)) && crate::ext::io_kind(e) == std::io::ErrorKind::Interrupted) ==> self.w_interrupted(k),
    { unimplemented!() }   // (external_body: never compiled into anything; does not depend on the signature of the real `poll`)
    /// the OS poller behind this Poll (ghost accessor for the pub(crate) field)
    pub closed spec fn pl(&self) -> Poller { *self.poller }
    /// (for code of other modules that reads the pub(crate) field directly)
    pub(crate) proof fn lemma_pl(&self)
        ensures self.pl() == *self.poller,
    {}
}
//@ endregion
//@ open src/sys.rs / impl Poll
//@ item src/sys.rs / impl Poll / fn poll props=C12,C14 sigonly ret=r
//@ spec
        ensures self.w_polled(timeout),
//@ enditem
//@ include sys_poll_real_body
//@ item src/sys.rs / impl Poll / fn poller props=C16 sigonly ret=r
//@ spec
        ensures **r == self.pl(),
//@ enditem
//@ close
//@ item src/sys.rs / struct Notifier props=C11
//@ enditem
//@ region notifier_specs props=C11
impl Notifier {
    /// the OS poller the handle notifies
    pub closed spec fn pl(&self) -> Poller { *self.0 }
    pub closed spec fn w_notified(&self) -> bool { self.0.w_notify_called() }
}
//@ endregion
//@ open src/sys.rs / impl Notifier
//@ item src/sys.rs / impl Notifier / fn notify props=C11 ret=r
//@ spec
        ensures self.w_notified(),
//@ enditem
//@ close
