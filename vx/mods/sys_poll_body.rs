//@ item src/sys.rs / struct Poll props=C16
//@ rw R6 1 <<events: RefCell<Events>,>> => <<pub(crate) events: RefCell<Events>,>>
//@ rw R6 1 <<level_triggered: Option<RefCell<HashMap<usize, (Raw, polling::Event)>>>,>> => <<pub(crate) level_triggered: Option<RefCell<HashMap<usize, (Raw, polling::Event)>>>,>>
//@ enditem
//@ region poll_witness props=C12,C14
impl Poll {
    /// monotone history witness (DESIGN 2.12): poll(timeout) has been called on this Poll with this timeout
    pub uninterp spec fn w_polled(&self, timeout: Option<Duration>) -> bool;
}
//@ endregion
//@ open src/sys.rs / impl Poll
//@ item src/sys.rs / impl Poll / fn poll props=C12,C14 sigonly ret=r
//@ spec
        ensures self.w_polled(timeout),
//@ enditem
//@ item src/sys.rs / impl Poll / fn register props=C16 sigonly ret=r
//@ enditem
//@ item src/sys.rs / impl Poll / fn reregister props=C16 sigonly ret=r
//@ enditem
//@ item src/sys.rs / impl Poll / fn unregister props=C16 sigonly ret=r
//@ enditem
//@ item src/sys.rs / impl Poll / fn poller props=C16 sigonly ret=r
//@ enditem
//@ close
