//@ region lifecycle_loop_specs props=C14,C12
/// Loop-level invariant tying the lifecycle set to the slot list: every entry addresses an occupied slot (this is what
/// makes the two `unreachable!()` arms unreachable). ASSUMED at the entry of the two lifecycle loops -- the cells it
/// relates are only visible inside one function at a time (DESIGN 1.4); what is proved elsewhere is that each
/// operation touching one of the two cells keeps its half (register_dispatcher, remove, the per-event body, the
/// dispatcher layer).
pub(crate) open spec fn lifecycle_entries_live<'l, Data>(extra: &AdditionalLifecycleEventsSet, sources: &SourceList<'l, Data>) -> bool {
    forall|i: int| 0 <= i < extra@.len() ==> (sources.lookup((#[trigger] extra@[i]).tok()) is Some && !sources@[extra@[i].tok().sid()].vacant())
}
/// the dispatcher a lifecycle entry addresses
pub open spec fn disp_of<'l, Data>(sources: &SourceList<'l, Data>, t: RegistrationToken) -> Rc<dyn EventDispatcher<Data> + 'l> {
    sources@[t.tok().sid()].disp()->Some_0
}
/// the event was returned by the before_sleep of some source in the lifecycle set
pub(crate) open spec fn synthetic_from_set<'l, Data>(extra: &AdditionalLifecycleEventsSet, sources: &SourceList<'l, Data>, ev: PollEvent) -> bool {
    exists|i: int| 0 <= i < extra@.len() && #[trigger] disp_of(sources, extra@[i]).w_synthetic(ev.readiness, ev.token)
}
//@ endregion

impl<'l, Data> EventLoop<'l, Data> {
//@ slice src/loop_logic.rs / impl EventLoop<'l, Data> / fn dispatch_events :: stmts <<let now = Instant::now();>> .. <<let events =>> props=C14,C12,C02,C11 name=EventLoop::dispatch_events::before_sleep_and_wait
//@ rw R12 * <<Duration::ZERO>> => <<crate::ext_dur::duration_zero()>>
//@ rw R11 1 <<for source in &mut *extra_lifecycle_sources.values>> => <<for source in lit: extra_lifecycle_sources.values.iter()>>
//@ rw R13 1 <<Ok(events) => break events,>> => <<Ok(events) => { return Ok(()); }>>
//@ rw R13 1 <<let events =>> => <<let events: Vec<PollEvent> =>>
//@ rw R10 1 <<self .handle .inner .sources_with_additional_lifecycle_events .borrow_mut()>> => <<extra_cell>>
//@ rw R10 1 <<&self.handle.inner.sources.borrow()>> => <<sources_cell>>
//@ rw R10 1 <<self.handle.inner.poll.borrow()>> => <<poll_cell>>
//@ bind WAIT <<poll.poll(>>
//@ bind LOOPVAR <<let sources = &self.handle.inner.sources.borrow(); for>>
//@ rw R19 1 <<poll.poll(>> => <<poll.poll_attempt(Ghost(attempt), >>
//@ after <<let result = poll.poll(>>
                proof { attempt = attempt + 1; }
//@ sig
/// S1 slice of EventLoop::dispatch_events: everything from the first statement up to and including the wait
/// (`let events = { .. poll.poll(timeout) .. };`): the before_sleep loop, the forced zero timeout, the EINTR retry loop.
/// Free variables: the function's own parameters (`self`, `timeout`) plus, by rule R10, one parameter per loop cell
/// borrowed in the range. Rule R11: `for x in &mut *V` (IterMut, unsupported) becomes `for x in V.iter()`; the body only
/// reads `source`, which rustc re-checks. Rule R12: `Duration::ZERO` becomes a call of a stand-in returning it.
/// Rule R13: `break events` (break-with-value, unsupported) becomes `return Ok(())`, which is what the slice does with the
/// value anyway: the polled `events` are not returned (see the other slices). Dropped: the rest of dispatch_events.
#[verifier::exec_allows_no_decreases_clause]
#[verifier::loop_isolation(false)]
fn before_sleep_and_wait(&mut self, extra_cell: &AdditionalLifecycleEventsSet, sources_cell: &SourceList<'l, Data>, poll_cell: &Poll, mut timeout: Option<Duration>) -> (r: crate::Result<()>)
//@ spec
    requires
        lifecycle_entries_live(extra_cell, sources_cell), sources_cell.wf(),
    ensures
        r is Ok ==> {
            // C14: every source in the lifecycle set got its before_sleep call (the loop runs over the whole set; the set
            // is duplicate free by unit base, so: exactly one call per opted-in source) ...
            &&& forall|i: int| 0 <= i < extra_cell@.len() ==> disp_of(sources_cell, #[trigger] extra_cell@[i]).w_before_sleep()
            // C14: what is queued is exactly what the sources returned: earlier synthetic events stay, each new one was
            // returned by the before_sleep of a source in the set
            &&& final(self).synthetic_events@.len() >= old(self).synthetic_events@.len()
            &&& forall|k: int| 0 <= k < old(self).synthetic_events@.len() ==> final(self).synthetic_events@[k] == old(self).synthetic_events@[k]
            &&& forall|k: int| old(self).synthetic_events@.len() <= k < final(self).synthetic_events@.len() ==>
                    synthetic_from_set(extra_cell, sources_cell, #[trigger] final(self).synthetic_events@[k])
            // C14/C12: ... and then the poller was waited on (must-call witness): with a zero timeout if a synthetic event
            // was returned -- whatever later sources returned --, with exactly the caller's timeout otherwise
            &&& final(self).synthetic_events@.len() > old(self).synthetic_events@.len() ==>
                    exists|t: Option<Duration>| #[trigger] poll_cell.w_polled(t) && (t matches Some(d) && crate::ext_time::dur_ns(d) == 0)
            &&& final(self).synthetic_events@.len() == old(self).synthetic_events@.len() ==> poll_cell.w_polled(timeout)
        },
//@ entry
    // (this overlay is for a loop that sets the timeout itself -- `bind LOOPVAR`: the loop follows the two borrows directly;
    //  a body that declares a flag in between is judged by the alternative overlay below)
    let ghost timeout0 = timeout;
    let ghost mut attempt: nat = 0;
    proof { broadcast use crate::ext_dur::axiom_duration_cmp, crate::ext_vec::axiom_iter_seq_option; }
//@ loop 1
        invariant
            lifecycle_entries_live(extra_cell, sources_cell), sources_cell.wf(),
            lit.seq().len() == extra_cell@.len(),
            forall|i: int| 0 <= i < lit.seq().len() ==> *(#[trigger] lit.seq()[i]) == extra_cell@[i],
            forall|i: int| 0 <= i < lit.index@ ==> disp_of(sources_cell, #[trigger] extra_cell@[i]).w_before_sleep(),
            // ($WAIT: the variable that is passed to `poll.poll(..)`, whatever it is called)
            self.synthetic_events@.len() > old(self).synthetic_events@.len() ==> ($WAIT matches Some(d) && crate::ext_time::dur_ns(d) == 0),
            self.synthetic_events@.len() == old(self).synthetic_events@.len() ==> $WAIT == timeout0,
            self.synthetic_events@.len() >= old(self).synthetic_events@.len(),
            forall|k: int| 0 <= k < old(self).synthetic_events@.len() ==> self.synthetic_events@[k] == old(self).synthetic_events@[k],
            forall|k: int| old(self).synthetic_events@.len() <= k < self.synthetic_events@.len() ==>
                synthetic_from_set(extra_cell, sources_cell, #[trigger] self.synthetic_events@[k]),
//@ closure? <<|(readiness, token)| PollEvent { readiness, token }>>
-> (ev: PollEvent) ensures ev.readiness == _vx_tup.0 && ev.token == _vx_tup.1
//@ atloopstart <<for source in>>
                let ghost n0 = self.synthetic_events@.len();
//@ atloopend <<for source in>>
                // C14: whatever this iteration queued is what the source of the current lifecycle entry returned (this is also
                // the witness for the existential in synthetic_from_set). Stated at the end of the iteration, independent of HOW
                // the body queues it (`push` inside an `if let`, `extend(option.map(..))`, ..)
                assert(forall|k: int| n0 <= k < self.synthetic_events@.len() ==> disp_of(sources_cell, extra_cell@[lit.index@]).w_synthetic((#[trigger] self.synthetic_events@[k]).readiness, self.synthetic_events@[k].token)); /*@props C14*/
//@ loop 2
        invariant
            self.synthetic_events@ == synth1,
            // either no wait has happened yet and the timeout is still the one computed above, or the first wait used it
            $WAIT == timeout1 || poll_cell.w_polled(timeout1),
            // C12/C11: the wait is repeated ONLY after an attempt that was interrupted by a signal; any other error ends the
            // dispatch (it is returned, not retried)
            attempt > 0 ==> poll_cell.w_interrupted((attempt - 1) as nat),
//@ before <<let events =>>
        let ghost synth1 = self.synthetic_events@;
        let ghost timeout1 = $WAIT;
//@ tail
    Ok(())
//@ alt
//@ rw R12 * <<Duration::ZERO>> => <<crate::ext_dur::duration_zero()>>
//@ rw R11 1 <<for source in &mut *extra_lifecycle_sources.values>> => <<for source in lit: extra_lifecycle_sources.values.iter()>>
//@ rw R13 1 <<Ok(events) => break events,>> => <<Ok(events) => { return Ok(()); }>>
//@ rw R13 1 <<let events =>> => <<let events: Vec<PollEvent> =>>
//@ rw R10 1 <<self .handle .inner .sources_with_additional_lifecycle_events .borrow_mut()>> => <<extra_cell>>
//@ rw R10 1 <<&self.handle.inner.sources.borrow()>> => <<sources_cell>>
//@ rw R10 1 <<self.handle.inner.poll.borrow()>> => <<poll_cell>>
//@ bind WAIT <<poll.poll(>>
//@ rw R19 1 <<poll.poll(>> => <<poll.poll_attempt(Ghost(attempt), >>
//@ bind FLAG <<let sources = &self.handle.inner.sources.borrow(); let mut>>
//@ after <<let result = poll.poll(>>
                proof { attempt = attempt + 1; }
//@ closure? <<|(readiness, token)| PollEvent { readiness, token }>>
-> (ev: PollEvent) ensures ev.readiness == _vx_tup.0 && ev.token == _vx_tup.1
//@ entry
    // (alternative overlay for a body that remembers in a FLAG -- declared right before the loop -- whether a synthetic event
    //  was returned and forces the zero timeout after the loop: the contract is the same, the flag must be ACCUMULATED)
    let ghost timeout0 = timeout;
    let ghost mut attempt: nat = 0;
    proof { broadcast use crate::ext_dur::axiom_duration_cmp, crate::ext_vec::axiom_iter_seq_option; }
//@ loop 1
        invariant
            lifecycle_entries_live(extra_cell, sources_cell), sources_cell.wf(),
            lit.seq().len() == extra_cell@.len(),
            forall|i: int| 0 <= i < lit.seq().len() ==> *(#[trigger] lit.seq()[i]) == extra_cell@[i],
            forall|i: int| 0 <= i < lit.index@ ==> disp_of(sources_cell, #[trigger] extra_cell@[i]).w_before_sleep(),
            // the wait's timeout is untouched inside the loop; the flag says whether ANY source so far returned an event
            $WAIT == timeout0,
            $FLAG <==> self.synthetic_events@.len() > old(self).synthetic_events@.len(),
            self.synthetic_events@.len() >= old(self).synthetic_events@.len(),
            forall|k: int| 0 <= k < old(self).synthetic_events@.len() ==> self.synthetic_events@[k] == old(self).synthetic_events@[k],
            forall|k: int| old(self).synthetic_events@.len() <= k < self.synthetic_events@.len() ==>
                synthetic_from_set(extra_cell, sources_cell, #[trigger] self.synthetic_events@[k]),
//@ atloopstart <<for source in>>
                let ghost n0 = self.synthetic_events@.len();
//@ atloopend <<for source in>>
                assert(forall|k: int| n0 <= k < self.synthetic_events@.len() ==> disp_of(sources_cell, extra_cell@[lit.index@]).w_synthetic((#[trigger] self.synthetic_events@[k]).readiness, self.synthetic_events@[k].token)); /*@props C14*/
//@ loop 2
        invariant
            self.synthetic_events@ == synth1,
            $WAIT == timeout1 || poll_cell.w_polled(timeout1),
            attempt > 0 ==> poll_cell.w_interrupted((attempt - 1) as nat),
//@ before <<let events =>>
        let ghost synth1 = self.synthetic_events@;
        let ghost timeout1 = $WAIT;
//@ tail
    Ok(())
//@ endslice

//@ slice src/loop_logic.rs / impl EventLoop<'l, Data> / fn dispatch_events :: stmts <<if !extra_lifecycle_sources.values.is_empty()>> .. <<if !extra_lifecycle_sources.values.is_empty()>> props=C14 name=EventLoop::dispatch_events::before_handle_events_loop
//@ rw R11 1 <<for source in &mut *extra_lifecycle_sources.values>> => <<for source in lit: extra_lifecycle_sources.values.iter()>>
//@ rw R10 1 <<self.handle.inner.sources.borrow()>> => <<sources>>
//@ sig
/// S1 slice of EventLoop::dispatch_events: the statement that calls before_handle_events on every lifecycle source
/// after the wait. Free variables become parameters: `extra_lifecycle_sources` (RefMut of the lifecycle cell),
/// `events` (the batch returned by Poll::poll -- the REAL polled events; the synthetic ones live in
/// self.synthetic_events and are not passed), `sources` (rule R10: the borrow of the slot-list cell).
fn before_handle_events_loop(&self, extra_lifecycle_sources: &AdditionalLifecycleEventsSet, sources: &SourceList<'l, Data>, events: &Vec<PollEvent>)
//@ spec
    requires
        lifecycle_entries_live(extra_lifecycle_sources, sources), sources.wf(),
    ensures
        // C14: every source in the lifecycle set gets one before_handle_events call, with an iterator that filters
        // for ITS OWN registration token and ranges over exactly the polled events of this dispatch
        forall|i: int| 0 <= i < extra_lifecycle_sources@.len() ==>
            disp_of(sources, #[trigger] extra_lifecycle_sources@[i]).w_before_handle_events(extra_lifecycle_sources@[i], events@),
//@ loop 1
        invariant
            lifecycle_entries_live(extra_lifecycle_sources, sources), sources.wf(),
            lit.seq().len() == extra_lifecycle_sources@.len(),
            forall|i: int| 0 <= i < lit.seq().len() ==> *(#[trigger] lit.seq()[i]) == extra_lifecycle_sources@[i],
            forall|i: int| 0 <= i < lit.index@ ==>
                disp_of(sources, #[trigger] extra_lifecycle_sources@[i]).w_before_handle_events(extra_lifecycle_sources@[i], events@),
//@ before <<disp.before_handle_events(iter);>>
                    // hint: a fresh slice iterator ranges over the whole batch
                    assert(iter.rest() =~= events@);
//@ endslice
}

//@ region event_iterator_next_specs props=C14
/// position k holds the first event that belongs to the source `reg` (by id and generation, any sub-id)
pub(crate) open spec fn first_match(ev: Seq<&PollEvent>, reg: RegistrationToken, k: int) -> bool {
    &&& 0 <= k < ev.len() && ev[k].token.inner.same_src(reg.tok())
    &&& forall|j: int| 0 <= j < k ==> !(#[trigger] ev[j]).token.inner.same_src(reg.tok())
}
//@ endregion
//@ slice src/loop_logic.rs / impl Iterator for EventIterator<'_> / fn next :: body props=C14 name=EventIterator::next
//@ rw R16 * <<self>> => <<slf>>
//@ rw R18 1 <<for next in>> => <<while let Some(next) =>>
//@ rw R18 1 <<.by_ref()>> => <<.next()>>
//@ sig
/// S1 slice: the whole body of `impl Iterator for EventIterator::next`, lifted into a free function (implementing
/// Iterator inside Verus would need vstd's prophetic iterator-model interface for the new type). R16: `&mut self` becomes
/// the parameter `slf`; R18: `for x in it.by_ref() { B }` becomes its definitional desugaring
/// `while let Some(x) = it.next() { B }` (Verus has no ghost iterator for `&mut I`).
#[verifier::exec_allows_no_decreases_clause]   // vstd's `remaining` is prophetic and may not appear in a decreases clause
fn event_iterator_next<'a>(slf: &mut EventIterator<'a>) -> (r: Option<(Readiness, Token)>)
//@ spec
    ensures
        final(slf).reg() == old(slf).reg(),
        // C14: the iterator given to before_handle_events yields exactly the events of ITS source -- every sub-token of it
        // (id and generation compared, sub-id ignored), in order, none of another source, none skipped
        match r {
            Some(item) => exists|k: int| #[trigger] first_match(old(slf).rest_refs(), old(slf).reg(), k)
                && item.0 == old(slf).rest_refs()[k].readiness && item.1 == old(slf).rest_refs()[k].token
                && final(slf).rest_refs() == old(slf).rest_refs().skip(k + 1),
            None => forall|j: int| 0 <= j < old(slf).rest_refs().len() ==> !(#[trigger] old(slf).rest_refs()[j]).token.inner.same_src(old(slf).reg().tok()),
        },
//@ entry
    let ghost rest0 = slf.rest_refs();
    let ghost reg0 = slf.reg();
    let ghost mut n: int = 0;
//@ loop 1
        invariant
            rest0 == old(slf).rest_refs(), reg0 == old(slf).reg(),
            slf.reg() == reg0,
            0 <= n <= rest0.len(),
            slf.rest_refs() == rest0.skip(n),
            forall|j: int| 0 <= j < n ==> !(#[trigger] rest0[j]).token.inner.same_src(reg0.tok()),
        ensures
            n == rest0.len(),
//@ before <<if next .token .inner .same_source_as(>>
            proof {
                assert(rest0.skip(n).skip(1) =~= rest0.skip(n + 1));
                assert(next == rest0.skip(n)[0]);
                assert(slf.rest_refs() == rest0.skip(n + 1));
                n = n + 1;
            }
//@ before <<return Some(>>
                assert(first_match(rest0, reg0, n - 1));
                assert(next.readiness == rest0[n - 1].readiness && next.token == rest0[n - 1].token);
                assert(slf.rest_refs() == rest0.skip((n - 1) + 1));
//@ endslice
