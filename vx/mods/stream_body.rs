//@ region stream_prelude props=C10
#[verifier::external_type_specification] #[verifier::external_body]
pub struct ExContext<'a>(std::task::Context<'a>);
#[verifier::external_type_specification] #[verifier::accept_recursive_types(T)]
pub struct ExTaskPoll<T>(std::task::Poll<T>);
//@ endregion
//@ item src/sources/stream.rs / struct PingWaker props=C10
//@ enditem
//@ item src/sources/stream.rs / struct StreamSource props=C10
//@ pre
#[verifier::reject_recursive_types(S)]
//@ enditem
//@ item src/sources/stream.rs / struct StreamError props=C10
//@ enditem

impl PingWaker {
//@ slice src/sources/stream.rs / impl Wake for PingWaker / fn wake :: body props=C10 name=PingWaker::wake
//@ rw R16 * <<self.0.ping()>> => <<slf.0.ping()>>
//@ sig
    /// S1 slice: whole body of `<PingWaker as Wake>::wake` (what waking the stream's waker does, from any thread); R16: the
    /// receiver `self: Arc<Self>` becomes the parameter `slf`.
    fn wake_body(slf: Arc<PingWaker>)
//@ spec
        requires
            forall|f: int, c: u64| #[trigger] crate::sources::ping::eventfd::may_send(f, c) <==> (f == slf.0.raw() && c == 2),
            forall|f: int, b: Seq<u8>| #[trigger] crate::rustix::io::may_write(f, b) <==> (f == slf.0.raw() && b == crate::sources::ping::eventfd::ne_bytes(2)),
        ensures
            // C10: a wake of the stream's waker is a ping of the StreamSource's own eventfd: the source is dispatched again
            crate::rustix::io::w_write_called(slf.0.raw(), crate::sources::ping::eventfd::ne_bytes(2)),
//@ endslice
//@ slice src/sources/stream.rs / impl Wake for PingWaker / fn wake_by_ref :: body props=C10 name=PingWaker::wake_by_ref
//@ rw R16 * <<self.0.ping()>> => <<slf.0.ping()>>
//@ sig
    /// S1 slice: whole body of `<PingWaker as Wake>::wake_by_ref`; R16 as above.
    fn wake_by_ref_body(slf: &Arc<PingWaker>)
//@ spec
        requires
            forall|f: int, c: u64| #[trigger] crate::sources::ping::eventfd::may_send(f, c) <==> (f == slf.0.raw() && c == 2),
            forall|f: int, b: Seq<u8>| #[trigger] crate::rustix::io::may_write(f, b) <==> (f == slf.0.raw() && b == crate::sources::ping::eventfd::ne_bytes(2)),
        ensures
            crate::rustix::io::w_write_called(slf.0.raw(), crate::sources::ping::eventfd::ne_bytes(2)),
//@ endslice
}

//@ slice src/sources/stream.rs / impl StreamSource<S> / fn new :: stmts <<let (ping, source) = make_ping()?;>> .. <<ping.ping();>> props=C10 name=StreamSource::new::initial_ping
//@ sig
    /// S1 slice of StreamSource::new: its first two statements (a free function: the range does not mention `S`, and an
    /// associated function of the generic impl that does not use its type parameter crashes Verus 0.2026.09.13). Dropped: the construction of the waker
    /// (`Waker::from(Arc<impl Wake>)`) and the struct literal.
    fn new_initial_ping() -> (r: crate::Result<(Ping, PingSource)>)
//@ spec
        requires
            // (may-call side) only the fresh eventfd may be written, and only with INCREMENT_PING
            forall|f: int| #[trigger] crate::sources::ping::eventfd::may_send(f, 2),
            forall|f: int| #[trigger] crate::rustix::io::may_write(f, crate::sources::ping::eventfd::ne_bytes(2)),
        ensures
            // C10: a new StreamSource has pinged itself: its first dispatch polls the stream (and thereby registers the waker),
            // so an item that is ready from the start is delivered and a pending stream can wake the source later
            r matches Ok(ps) ==> ps.0.raw() == ps.1.raw()
                && crate::rustix::io::w_write_called(ps.0.raw(), crate::sources::ping::eventfd::ne_bytes(2)),
//@ tail
        Ok((ping, source))
//@ endslice

impl<S: Stream + Unpin> StreamSource<S> {

//@ slice src/sources/stream.rs / impl EventSource for StreamSource<S> / fn process_events :: closure 1 props=C10 name=StreamSource::process_events::poll_closure
//@ rw R21 1 <<stream.as_mut().poll_next(&mut context)>> => <<crate::futures_core::poll_next_unpin(&mut *stream, &mut context)>>
//@ sig
    /// S1 slice: the body of the closure StreamSource::process_events passes to its PingSource. Captured `stream`,
    /// `context`, `callback` become parameters, the captured `mut end_of_stream` a local that is returned. R21: the call
    /// `Pin<&mut &mut S>::as_mut().poll_next(cx)` on the Unpin stream becomes a call of the stand-in `poll_next_unpin`
    /// (futures_core is an external crate: rule D5), which carries the witnesses. The loop need not terminate (an endless
    /// stream of ready items keeps it going: that is the real behaviour), hence no decreases clause.
    #[verifier::exec_allows_no_decreases_clause]
    fn stream_poll_closure<C: FnMut(Option<S::Item>, &mut ())>(stream: &mut S, mut context: Context<'_>, mut callback: C) -> (r: bool)
//@ spec
        requires
            // C10: the callback is callable ONLY with an item the stream has just yielded (nothing made up, nothing twice:
            // items are not Clone here) and with None ONLY once the stream reported its end
            forall|e: Option<S::Item>, m: &mut ()| #[trigger] call_requires(callback, (e, m)) <==> match e {
                Some(v) => crate::futures_core::w_yielded::<S>(v),
                None => crate::futures_core::w_stream_end::<S>(),
            },
            // (must-call device) a call of the callback leaves the witness "delivered"; the loop invariant below then says
            // that EVERYTHING the stream handed out during this call has been delivered -- no item and not the final None
            // is polled out of the stream and then dropped
            forall|e: Option<S::Item>, m: &mut ()| #[trigger] call_ensures(callback, (e, m), ()) ==> crate::futures_core::w_delivered::<S>(e),
        ensures
            // r = end_of_stream: set only after the stream said Ready(None) (and None was handed to the callback: the call
            // precedes the assignment in the text); otherwise the stream was polled until it said Pending -- every item
            // that was ready has been delivered, in order, and the waker is registered for the next one
            r ==> crate::futures_core::w_stream_end::<S>(),
            !r ==> crate::futures_core::w_stream_pending::<S>(),
//@ entry
        let mut end_of_stream = false;
        let ghost mut seen: Seq<Option<S::Item>> = Seq::empty();
//@ atloopstart <<while let>>
                    proof { seen = seen.push(evt); }
//@ loop 1
            invariant_except_break
                !end_of_stream,
            invariant
                forall|e: Option<S::Item>, m: &mut ()| #[trigger] call_requires(callback, (e, m)) <==> match e {
                    Some(v) => crate::futures_core::w_yielded::<S>(v),
                    None => crate::futures_core::w_stream_end::<S>(),
                },
                forall|e: Option<S::Item>, m: &mut ()| #[trigger] call_ensures(callback, (e, m), ()) ==> crate::futures_core::w_delivered::<S>(e),
                // C10 (must-call side): everything polled out of the stream so far has been handed to the callback
                forall|i: int| 0 <= i < seen.len() ==> crate::futures_core::w_delivered::<S>(#[trigger] seen[i]),
            ensures
                end_of_stream ==> crate::futures_core::w_stream_end::<S>(),
                !end_of_stream ==> crate::futures_core::w_stream_pending::<S>(),
//@ tail
        end_of_stream
//@ alt
//@ entry
        // (alternative overlay for a closure body WITHOUT the poll loop -- e.g. the loop moved out of the closure, in front of
        // the drain of the eventfd: same contract, so a closure that does not poll the stream to Pending / to its end after
        // the wake-up has been consumed is reported instead of being undecided)
        let mut end_of_stream = false;
//@ endslice

//@ slice src/sources/stream.rs / impl EventSource for StreamSource<S> / fn process_events :: stmts <<if end_of_stream {>> .. <<if end_of_stream {>> props=C10 name=StreamSource::process_events::post_poll
//@ sig
    /// S1 slice: the last statement of StreamSource::process_events.
    fn post_poll(end_of_stream: bool, action: PostAction) -> (r: Result<PostAction, StreamError>)
//@ spec
        ensures
            // C10: after the single None the source removes itself; otherwise whatever the ping source decided
            end_of_stream ==> r == Ok::<PostAction, StreamError>(PostAction::Remove),
            !end_of_stream ==> r == Ok::<PostAction, StreamError>(action),
//@ endslice
}

//@ region stream_src_spec props=C16,C07,C15
impl<S: Stream + Unpin> StreamSource<S> {
    pub closed spec fn src(&self) -> PingSource { self.source }
}
//@ endregion
//@ open src/sources/stream.rs / impl EventSource for StreamSource<S>
//@ item src/sources/stream.rs / impl EventSource for StreamSource<S> / type Event props=C16,C07,C15
//@ enditem
//@ item src/sources/stream.rs / impl EventSource for StreamSource<S> / type Metadata props=C16,C07,C15
//@ enditem
//@ item src/sources/stream.rs / impl EventSource for StreamSource<S> / type Ret props=C16,C07,C15
//@ enditem
//@ item src/sources/stream.rs / impl EventSource for StreamSource<S> / type Error props=C16,C07,C15
//@ enditem
//@ region streamsource_protocol props=C16,C07,C15
    // as far as registration goes the source IS its ping source (whose registration is that of its Generic<eventfd>)
    open spec fn wf(&self) -> bool { self.src().wf() }
    open spec fn registered(&self) -> bool { self.src().registered() }
    open spec fn register_req(&self) -> bool { self.src().register_req() }
    open spec fn register_ens(o: &Self, n: &Self, ok: bool) -> bool { PingSource::register_ens(&o.src(), &n.src(), ok) }
    open spec fn reregister_req(&self) -> bool { self.src().reregister_req() }
    open spec fn reregister_ens(o: &Self, n: &Self, ok: bool) -> bool { PingSource::reregister_ens(&o.src(), &n.src(), ok) }
    open spec fn unregister_req(&self) -> bool { self.src().unregister_req() }
    open spec fn unregister_ens(o: &Self, n: &Self, ok: bool) -> bool { PingSource::unregister_ens(&o.src(), &n.src(), ok) }
    open spec fn process_req(&self) -> bool { self.src().process_req() }
    open spec fn may_call(&self, readiness: Readiness, token: Token, e: Option<S::Item>) -> bool { true }
    open spec fn cb_req<CbF: FnMut(Option<S::Item>, &mut ())>(&self, readiness: Readiness, token: Token, callback: CbF) -> bool { true }
    open spec fn process_ens(o: &Self, n: &Self, readiness: Readiness, token: Token, r: Result<PostAction, StreamError>) -> bool { true }
//@ endregion
//@ item src/sources/stream.rs / impl EventSource for StreamSource<S> / fn process_events props=C16,C07,C15 sigonly
//@ rw R8 1 <<process_events<F>>> => <<process_events<CbF>>>
//@ rw R8 1 <<mut callback: F,>> => <<mut callback: CbF,>>
//@ rw R8 1 <<F: FnMut(Option<S::Item>, &mut ()),>> => <<CbF: FnMut(Option<S::Item>, &mut ()),>>
//@ enditem
//@ item src/sources/stream.rs / impl EventSource for StreamSource<S> / fn register props=C16,C07,C15
//@ enditem
//@ item src/sources/stream.rs / impl EventSource for StreamSource<S> / fn reregister props=C16,C07,C15
//@ enditem
//@ item src/sources/stream.rs / impl EventSource for StreamSource<S> / fn unregister props=C16,C07,C15
//@ enditem
//@ close
