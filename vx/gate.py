"""Fidelity gate (DESIGN 2.2): from the *generated* file alone, undo every marked insertion / rewrite and
require the remainder of each extracted item to be token-identical to the item in /repo's working tree.

Independent of extract.py's locator: it re-reads the real file, cuts [start,end) as recorded in the block
marker, checks that this span is a balanced item that carries the expected keyword/name, and compares
token streams. Returns a list of per-item records (sha256 of the token stream) or raises GateError.
"""
import base64
import hashlib
import os
import re

from rustlex import lex, sig_texts, sig, match_brackets, LexError

REPO = os.environ.get('CALLOOP_REPO', '/repo')


class GateError(Exception):
    pass


B_RE = re.compile(r'^/\*@([BHS]) (\S+) (\d+) (\d+) (.*)\*/$', re.S)
RW_RE = re.compile(r'^/\*~([\w+]+):([A-Za-z0-9+/=]*)~\*/$')


def split_glued(texts):
    out = []
    for t in texts:
        if len(t) > 1 and not (t[0].isalnum() or t[0] in '_"\'' ) and not t[0].isdigit():
            out.extend(list(t))
        else:
            out.append(t)
    return out


def check_generated(gen_path):
    text = open(gen_path, encoding='utf-8').read()
    toks = lex(text)
    records = []
    i = 0
    n = len(toks)
    real_cache = {}
    while i < n:
        t = toks[i]
        mb = B_RE.match(t.text) if t.kind == 'com' else None
        if not mb:
            i += 1
            continue
        kind, rel, start, end, path = mb.group(1), mb.group(2), int(mb.group(3)), int(mb.group(4)), mb.group(5)
        i += 1
        rebuilt = []
        rewrites = []
        mode = None   # None | 'ins' | 'rw'
        while i < n and toks[i].text != '/*@E*/':
            tk = toks[i]
            if tk.kind == 'com':
                if tk.text == '/*+*/':
                    if mode:
                        raise GateError('%s: nested marker in %s' % (gen_path, path))
                    mode = 'ins'
                elif tk.text == '/*-*/':
                    if mode != 'ins':
                        raise GateError('%s: stray /*-*/ in %s' % (gen_path, path))
                    mode = None
                elif tk.text == '/*~~*/':
                    if mode != 'rw':
                        raise GateError('%s: stray /*~~*/ in %s' % (gen_path, path))
                    mode = None
                else:
                    mr = RW_RE.match(tk.text)
                    if mr:
                        if mode:
                            raise GateError('%s: nested marker in %s' % (gen_path, path))
                        mode = 'rw'
                        orig = base64.b64decode(mr.group(2)).decode()
                        rewrites.append(mr.group(1))
                        rebuilt.extend(sig_texts(orig))
                    elif B_RE.match(tk.text):
                        raise GateError('%s: nested block in %s' % (gen_path, path))
                i += 1
                continue
            if tk.kind == 'ws' or mode:
                i += 1
                continue
            rebuilt.append(tk.text)
            i += 1
        if i >= n:
            raise GateError('%s: unterminated block %s' % (gen_path, path))
        if mode:
            raise GateError('%s: unterminated marker in %s' % (gen_path, path))
        i += 1
        if rel not in real_cache:
            real_cache[rel] = open(os.path.join(REPO, rel), encoding='utf-8').read()
        real = real_cache[rel]
        span = real[start:end]
        real_toks = sig_texts(span)
        a = split_glued(rebuilt)
        b = split_glued(real_toks)
        if a != b:
            # find first difference for the message
            k = 0
            while k < min(len(a), len(b)) and a[k] == b[k]:
                k += 1
            raise GateError('fidelity mismatch in %s (%s): generated `%s` vs real `%s`'
                            % (path, rel, ' '.join(a[k:k + 8]), ' '.join(b[k:k + 8])))
        # the span must be a balanced token sequence cut at token boundaries
        try:
            st = sig(lex(span))
            if kind == 'H':
                # impl header: balanced except for the final `{`
                if not st or st[-1].text != '{':
                    raise GateError('%s: header span of %s does not end with `{`' % (rel, path))
                match_brackets(st[:-1])
            else:
                match_brackets(st)
        except LexError as e:
            raise GateError('%s: real span of %s is not balanced: %s' % (rel, path, e))
        # last selector must occur in the span
        last_sel = path.split(' :: ')[0].split(' / ')[-1].strip()
        kw = last_sel.split()[0]
        if kw != 'impl' and kind != 'S':
            name = last_sel.split()[1]
            texts = [x.text for x in st]
            ok = any(texts[k] == kw and texts[k + 1] == name for k in range(len(texts) - 1))
            if not ok:
                raise GateError('%s: span recorded for `%s` does not contain `%s %s`' % (rel, path, kw, name))
        if start > 0 and real[start - 1] not in ' \t\n\r':
            raise GateError('%s: span of %s does not start at a token boundary' % (rel, path))
        h = hashlib.sha256('\x00'.join(b).encode()).hexdigest()
        records.append({'item': path, 'file': rel, 'line': real.count('\n', 0, start) + 1,
                        'tokens': len(b), 'sha256': h[:16], 'rewrites': sorted(set(rewrites)), 'kind': kind})
    return records
