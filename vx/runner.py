"""Run Verus on one generated unit and classify the outcome (DESIGN 2.5/2.6)."""
import json
import os
import re
import subprocess
import time

import threading

import extract
import gate

EXTRACT_LOCK = threading.Lock()

VERUS = os.environ.get('VERUS_BIN', 'verus')

# verifier verdicts that are statements about the program (anything else is a tool failure => undecided)
SEMANTIC = [
    ('postcondition not satisfied', 'postcondition'),
    ('unable to prove post-condition of closure', 'closure-postcondition'),
    ('precondition not satisfied', 'precondition'),
    ('assertion failed', 'assertion'),
    ('invariant not satisfied', 'invariant'),
    ('possible arithmetic underflow/overflow', 'overflow'),
    ('possible division by zero', 'div0'),
    ('fails to satisfy `callee.requires(args)`', 'callback-precondition'),
    ('decreases not satisfied', 'decreases'),
    ('could not show termination', 'decreases'),
    ('unreachable', 'unreachable'),
    ('possible bit shift underflow/overflow', 'overflow'),
    ('cannot show invariant', 'invariant'),
]
RESOURCE = ('rlimit', 'Resource limit', 'timed out', 'timeout', 'unknown')


def classify(msg):
    for pat, kind in SEMANTIC:
        if pat in msg:
            return kind
    return None


def region_of(meta, line):
    for r in meta['regions']:
        if r['first_line'] <= line <= (r['last_line'] or 0):
            return r
    return None


def run_verus(path, rlimit=None, threads=None, extra=()):
    cmd = [VERUS, os.path.basename(path), '--output-json', '--time-expanded', '--multiple-errors', '100',
           '--error-format=json']
    if rlimit:
        cmd += ['--rlimit', str(rlimit)]
    if threads:
        cmd += ['--num-threads', str(threads)]
    cmd += list(extra)
    t0 = time.time()
    try:
        p = subprocess.run(cmd, cwd=os.path.dirname(path), capture_output=True, text=True,
                           timeout=int(os.environ.get('VERIF_VERUS_TIMEOUT', '900')))
    except subprocess.TimeoutExpired:
        # a verifier that does not come back is a tool limit: undecided, never an alarm
        return cmd, 124, '', '{"level":"error","message":"verus timed out (wall clock)","spans":[]}', time.time() - t0
    wall = time.time() - t0
    return cmd, p.returncode, p.stdout, p.stderr, wall


def parse_run(meta, rc, stdout, stderr):
    """-> dict(status, reason, functions, errors, results)"""
    res = {'status': 'ok', 'reason': None, 'functions': {}, 'errors': [], 'tool_errors': [], 'results': None,
           'smt_ms': 0}
    try:
        j = json.loads(stdout)
    except Exception:
        j = None
    diags = []
    for l in stderr.splitlines():
        l = l.strip()
        if l.startswith('{'):
            try:
                diags.append(json.loads(l))
            except Exception:
                pass
    src_lines = None
    for d in diags:
        if d.get('level') != 'error':
            continue
        msg = d.get('message', '')
        if msg.startswith('aborting due to'):
            continue
        kind = classify(msg)
        spans = d.get('spans', [])

        def call_site(sp):
            # a span inside a macro expansion (panic!, assert!, ...) lives in the macro's file: follow the expansion chain
            # to the invocation in the generated file
            seen = 0
            while sp is not None and os.path.basename(sp.get('file_name', '')) != os.path.basename(meta['file']) and seen < 20:
                exp = sp.get('expansion') or {}
                nxt = exp.get('span')
                if nxt is None:
                    return None
                lab, prim_ = sp.get('label'), sp.get('is_primary')
                sp = dict(nxt)
                sp.setdefault('label', lab)
                if sp.get('label') is None:
                    sp['label'] = lab
                sp['is_primary'] = prim_
                seen += 1
            return sp
        spans = [x for x in (call_site(sp) for sp in spans) if x is not None] or spans
        ours = [s for s in spans if os.path.basename(s.get('file_name', '')) == os.path.basename(meta['file'])]
        prim = [s for s in ours if s.get('is_primary')] or ours
        line = prim[0]['line_start'] if prim else None
        # the *function* in which the obligation failed: any span of ours locates it
        region = None
        clause_labels = ('failed this postcondition', 'failed precondition', 'failed this invariant')
        site_spans = [s for s in ours if (s.get('label') or '') not in clause_labels]
        # the obligation belongs to the function whose body/call-site failed, not to where the clause is written
        for s in (site_spans + prim + ours):
            region = region_of(meta, s['line_start'])
            if region and region['kind'] != 'scaffold':
                line = s['line_start']
                break
        clause = None
        labelled = {}
        for s in spans:
            txt = ' '.join(t['text'][t['highlight_start'] - 1:t['highlight_end'] - 1] if len(s['text']) == 1 else t['text'].strip()
                           for t in s.get('text', []))
            txt = re.sub(r'/\*[+\-~@][^*]*\*/', '', txt)
            txt = re.sub(r'/\*@props [A-Z0-9,]+\*/', '', txt)
            txt = re.sub(r'\s+', ' ', txt).strip()
            labelled[s.get('label') or ''] = txt[:300]
        for lab in ('failed this postcondition', 'failed precondition', 'assertion failed', 'failed this invariant'):
            if lab in labelled:
                clause = labelled[lab]
        if clause is None and prim:
            clause = labelled.get(prim[0].get('label') or '', None)
        site = None
        for lab in ('at the end of the function body', 'at this exit', 'at this call-site', ''):
            if lab in labelled and labelled[lab] != clause:
                site = labelled[lab]
                break
        # context of the failing site inside a long generated line: the match-arm pattern right before it
        site_ctx = None
        for sp in (prim or []):
            tx = sp.get('text') or []
            if tx:
                pre = tx[0]['text'][:max(0, tx[0]['highlight_start'] - 1)]
                pre = re.sub(r'/\*[~+\-@][^*]*\*/', '', pre)
                k = pre.rfind('=>')
                if k >= 0:
                    site_ctx = re.sub(r'\s+', ' ', pre[max(0, k - 90):k]).strip().split(',')[-1].strip()
        # clause-level property tags: `/*@props C09,C01*/` on the failing clause / assert narrows the region's tags
        props = list(region['props']) if region else []
        clause_spans = [sp for sp in ours if (sp.get('label') or '') in clause_labels] or prim
        if src_lines is None:
            try:
                src_lines = open(meta['file'], encoding='utf-8').read().split('\n')
            except OSError:
                src_lines = []
        for sp in clause_spans:
            found = None
            # the tag narrows a clause only if it sits on the clause's LAST line (where a one-line assert / clause carries it);
            # a tag somewhere inside a multi-line clause belongs to a sub-term and must not hijack the whole clause
            for ln in (sp['line_end'],):
                if 0 < ln <= len(src_lines):
                    mm = re.search(r'/\*@props ([A-Z0-9,]+)\*/', src_lines[ln - 1])
                    if mm:
                        found = [x for x in mm.group(1).split(',') if x]
                        break
            if found:
                props = found
                break
        if src_lines is None:
            try:
                src_lines = open(meta['file'], encoding='utf-8').read().split('\n')
            except OSError:
                src_lines = []
        # the failing exit / call site with the generated lines just above it (marker comments stripped): lets a known
        # finding name ONE of several `?` exits or call sites of a function
        site_lines = None
        exit_spans = [sp for sp in ours if (sp.get('label') or '') in ('at this exit', 'at this call-site')] or site_spans
        if exit_spans and src_lines:
            ln = exit_spans[0]['line_start']
            chunk = '\n'.join(src_lines[max(0, ln - 12):ln])
            chunk = re.sub(r'/\*[~+\-@][^*]*\*/', '', chunk)
            site_lines = re.sub(r'\s+', ' ', chunk).strip()[-700:]
        rec = {'message': msg, 'kind': kind, 'line': line, 'site_ctx': site_ctx, 'site_lines': site_lines, 'region': region['name'] if region else None,
               'props': props, 'clause': clause, 'site': site,
               'rendered': d.get('rendered', '')[:4000]}
        if kind is None:
            res['tool_errors'].append(rec)
        else:
            res['errors'].append(rec)
    if j is None:
        res['status'] = 'undecided'
        res['reason'] = 'verus produced no JSON (rc=%s): %s' % (rc, (stderr or '')[-500:])
        return res
    res['results'] = j.get('verification-results')
    tm = j.get('times-ms', {})
    smt = tm.get('smt', {})
    res['smt_ms'] = smt.get('total', 0)
    for mod in smt.get('smt-run-module-times', []):
        for f in mod.get('function-breakdown', []):
            name = f['function']
            e = res['functions'].setdefault(name, {'success': True, 'time_us': 0, 'rlimit': 0})
            e['success'] = e['success'] and bool(f.get('success'))
            e['time_us'] += f.get('time-micros', 0)
            e['rlimit'] += f.get('rlimit', 0)
    vr = res['results'] or {}
    if vr.get('encountered-vir-error') or res['tool_errors']:
        res['status'] = 'undecided'
        res['reason'] = 'tool error: ' + '; '.join(e['message'][:200] for e in res['tool_errors'][:3])
    elif not vr and rc != 0:
        res['status'] = 'undecided'
        res['reason'] = 'verus failed rc=%s' % rc
    elif rc != 0 and not res['errors']:
        res['status'] = 'undecided'
        res['reason'] = 'verus rc=%s without a classified error: %s' % (rc, stderr[-400:])
    return res


def func_region(meta, fname):
    """best-effort map of a Verus function name (crate::mod::Type::f) to a region by name suffix."""
    return None


def build_and_run(unit, workdir, vacuity=False, rlimit=None, force=None, attempt=0, skipv=None):
    """Full pipeline for one unit. Returns result dict; never raises for expected failures."""
    out = {'unit': unit, 'vacuity': vacuity, 'status': 'ok', 'reason': None}
    t0 = time.time()
    force = dict(force or {})
    skipv = dict(skipv or {})
    try:
        with EXTRACT_LOCK:
            extract.SrcFile.cache.clear()
            meta = extract.build_unit(unit, workdir, vacuity=vacuity, force_degrade=force, skip_variants=skipv)
    except extract.ExtractError as e:
        out.update(status='undecided', reason='extract: %s' % e)
        return out
    except Exception as e:  # extractor bug: still never an alarm
        out.update(status='undecided', reason='extractor crashed: %r' % e)
        return out
    out['meta'] = meta
    try:
        out['gate'] = gate.check_generated(meta['file'])
    except gate.GateError as e:
        out.update(status='undecided', reason='fidelity gate: %s' % e)
        return out
    except Exception as e:
        out.update(status='undecided', reason='gate crashed: %r' % e)
        return out
    cmd, rc, so, se, wall = run_verus(meta['file'], rlimit=rlimit)
    out['cmd'] = ' '.join(cmd)
    out['verus_wall_s'] = round(wall, 2)
    r = parse_run(meta, rc, so, se)
    # one retry with 4x rlimit if the only trouble was resources
    if r['status'] == 'undecided' and r['tool_errors'] and all(any(k in e['message'] for k in RESOURCE) for e in r['tool_errors']) and not rlimit:
        cmd, rc, so, se, wall2 = run_verus(meta['file'], rlimit=40)
        out['cmd'] = ' '.join(cmd)
        out['verus_wall_s'] = round(wall + wall2, 2)
        out['retried_rlimit'] = 40
        r = parse_run(meta, rc, so, se)
    # a construct the verifier rejects inside ONE contracted function / slice (e.g. an std method without a specification
    # that an edit introduced) should cost only that item: rebuild with the item degraded (signature-only / left out) and
    # try again, so that the other obligations of the unit are still decided
    if r['status'] == 'undecided' and r['tool_errors'] and attempt < 4:
        kinds = {rg['name']: rg['kind'] for rg in meta['regions']}
        culprits = {}
        again = False
        for e in r['tool_errors']:
            if e.get('region') and kinds.get(e['region']) == 'item' and e['region'] not in force:
                used, nvar = meta.get('variants', {}).get(e['region'], (0, 1))
                if used + 1 < nvar:
                    # the item has another overlay variant (`//@ alt`, e.g. for the shape before a repair): try that first
                    skipv[e['region']] = used + 1
                    again = True
                else:
                    culprits[e['region']] = e['message'][:160]
        if culprits or again:
            force.update(culprits)
            return build_and_run(unit, workdir, vacuity=vacuity, rlimit=rlimit, force=force, attempt=attempt + 1, skipv=skipv)
    out.update(r)
    out['wall_s'] = round(time.time() - t0, 2)
    with open(os.path.join(workdir, unit + ('_vac' if vacuity else '') + '.stderr.txt'), 'w') as fh:
        fh.write(se)
    return out
