"""./check <Cxx> --replay FILE : re-execute a counterexample on the real code (DESIGN 2.8)."""
import json
import os
import shutil
import subprocess
import sys

KX = os.path.dirname(os.path.abspath(__file__))
ROOT = os.path.dirname(KX)
REPO = os.environ.get('CALLOOP_REPO', '/repo')
GROUPS = json.load(open(os.path.join(KX, 'harnesses.json')))


def find_harness(name):
    for gname, g in GROUPS.items():
        for h in g['harnesses']:
            if h['name'] == name:
                return gname, g, h
    return None, None, None


HARNESS_FILE = {'src/lib.rs': 'harness.rs', 'src/sys.rs': 'sys_harness.rs', 'src/loop_logic.rs': 'loop_harness.rs'}


def replay_incrate(r, path, g, h):
    """A harness compiled inside the real crate: Kani's concrete playback. The unit tests Kani generated for the failed
    checks (the counterexample as bytes per kani::any()) are appended to a scratch copy of the harness file and executed
    NATIVELY on the real crate by `cargo kani playback` -- no model checker involved, the real code runs on the inputs."""
    wd = os.path.join(os.environ.get('VERIF_BUILD_DIR') or os.path.join(ROOT, 'build'), 'replay-%s' % h['name'])
    shutil.rmtree(wd, ignore_errors=True)
    inc = os.path.join(wd, 'verif', 'kx', 'incrate')
    os.makedirs(inc)
    for f in os.listdir(os.path.join(KX, 'incrate')):
        shutil.copy(os.path.join(KX, 'incrate', f), os.path.join(inc, f))
    hf = os.path.join(inc, HARNESS_FILE[g.get('hook_file', 'src/lib.rs')])
    with open(hf, 'a') as fh:
        for t in r['playback_tests']:
            fh.write('\n' + t + '\n')
    env = dict(os.environ, CARGO_NET_OFFLINE='true', CALLOOP_VERIF_DIR=os.path.join(wd, 'verif'), CARGO_TARGET_DIR=os.path.join(wd, 'target'))
    cmd = ['cargo', 'kani', 'playback', '-Z', 'concrete-playback', '-p', 'calloop', '--', 'kani_concrete_playback_' + h['name']]
    p = subprocess.run(cmd, cwd=REPO, capture_output=True, text=True, env=env)
    out = p.stdout + p.stderr
    shutil.rmtree(wd, ignore_errors=True)
    m = __import__('re').search(r'test result: (\w+)\. (\d+) passed; (\d+) failed', out)
    for l in out.splitlines():
        if 'panicked at' in l or l.startswith('test ') or 'test result' in l:
            print(l)
    if m and int(m.group(3)) > 0:
        print('the real code violates the obligation on the inputs of the counterexample (%s; bound: %s)' % (h['what'], h.get('bound', 'none')))
        print('VIOLATION property=%s replay=%s' % (r.get('property'), path))
        return 1
    if m and int(m.group(2)) > 0:
        print('the real code satisfies the obligation on the inputs of the counterexample: suspected false alarm of the verifier')
        return 0
    print('the playback could not be run:')
    print(out[-3000:])
    return 2


def run(path, prop):
    r = json.load(open(path))
    print('replay: property=%s obligation=%s backend=%s' % (r.get('property'), r.get('obligation'), r.get('backend')))
    inputs = r.get('inputs')
    twin = r.get('kani_twin') or (r.get('obligation', '').replace('kani :: ', '') if r.get('backend') == 'kani' else None)
    if not inputs or not twin:
        print('no failing input was found by the verifier; the failed obligation and the verifier output are:')
        print(r.get('verifier_output', '')[:6000])
        print('VIOLATION property=%s replay=%s no-failing-input-found' % (r.get('property'), path))
        return 1
    gname, g, h = find_harness(twin)
    if h is not None and g.get('kind') == 'incrate' and r.get('playback_tests'):
        return replay_incrate(r, path, g, h)
    if h is None or g.get('kind') != 'leaf':
        print('counterexample %s for harness %s cannot be replayed outside Kani; verifier output:' % (inputs, twin))
        print(r.get('verifier_output', '')[:6000])
        return 1
    wd = os.path.join(ROOT, 'build', 'replay-%s' % twin)
    shutil.rmtree(wd, ignore_errors=True)
    os.makedirs(os.path.join(wd, 'src'))
    open(os.path.join(wd, 'Cargo.toml'), 'w').write('[package]\nname = "replay"\nversion = "0.1.0"\nedition = "2021"\n[dependencies]\n[workspace]\n')
    lines = ['#![allow(dead_code, unused)]']
    for f in g['files']:
        lines.append('#[path = "%s"]\nmod %s;' % (os.path.join(REPO, f), os.path.basename(f)[:-3]))
    lines.append('include!("%s");' % os.path.join(KX, 'leaf', gname.replace('leaf_', '') + '_bodies.rs'))
    args = ', '.join('%du64 as usize' % (v & 0xFFFFFFFFFFFFFFFF) for v in inputs[:h['args']])
    lines.append('fn main() { let r = std::panic::catch_unwind(|| bodies::%s(%s)); std::process::exit(if r.is_err() { 1 } else { 0 }); }' % (h['body'], args))
    open(os.path.join(wd, 'src', 'main.rs'), 'w').write('\n'.join(lines) + '\n')
    p = subprocess.run(['cargo', 'run', '--offline', '-q'], cwd=wd, capture_output=True, text=True, env=dict(os.environ, CARGO_NET_OFFLINE='true'))
    panicked = p.returncode == 1
    print(p.stderr[-1500:])
    shutil.rmtree(wd, ignore_errors=True)
    violated = (not panicked) if h.get('should_panic') else panicked
    if violated:
        print('the real code violates the obligation on inputs %s (%s)' % (inputs[:h['args']], h['what']))
        print('VIOLATION property=%s replay=%s' % (r.get('property'), path))
        return 1
    print('the real code satisfies the obligation on inputs %s: suspected false alarm of the verifier' % (inputs[:h['args']],))
    return 0
