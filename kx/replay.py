"""./check <Cxx> --replay FILE : re-execute a counterexample on the real code (DESIGN 2.8)."""
import json
import os
import shutil
import subprocess
import sys

KX = os.path.dirname(os.path.abspath(__file__))
ROOT = os.path.dirname(KX)
REPO = os.environ.get('CALLOOP_REPO', '/repo')
GROUPS = json.load(open(os.path.join(KX, 'harnesses.json')))


def find_harness(name):
    for gname, g in GROUPS.items():
        for h in g['harnesses']:
            if h['name'] == name:
                return gname, g, h
    return None, None, None


def run(path, prop):
    r = json.load(open(path))
    print('replay: property=%s obligation=%s backend=%s' % (r.get('property'), r.get('obligation'), r.get('backend')))
    inputs = r.get('inputs')
    twin = r.get('kani_twin') or (r.get('obligation', '').replace('kani :: ', '') if r.get('backend') == 'kani' else None)
    if not inputs or not twin:
        print('no failing input was found by the verifier; the failed obligation and the verifier output are:')
        print(r.get('verifier_output', '')[:6000])
        print('VIOLATION property=%s replay=%s no-failing-input-found' % (r.get('property'), path))
        return 1
    gname, g, h = find_harness(twin)
    if h is None or g.get('kind') != 'leaf':
        print('counterexample %s for harness %s cannot be replayed outside Kani; verifier output:' % (inputs, twin))
        print(r.get('verifier_output', '')[:6000])
        return 1
    wd = os.path.join(ROOT, 'build', 'replay-%s' % twin)
    shutil.rmtree(wd, ignore_errors=True)
    os.makedirs(os.path.join(wd, 'src'))
    open(os.path.join(wd, 'Cargo.toml'), 'w').write('[package]\nname = "replay"\nversion = "0.1.0"\nedition = "2021"\n[dependencies]\n[workspace]\n')
    lines = ['#![allow(dead_code, unused)]']
    for f in g['files']:
        lines.append('#[path = "%s"]\nmod %s;' % (os.path.join(REPO, f), os.path.basename(f)[:-3]))
    lines.append('include!("%s");' % os.path.join(KX, 'leaf', gname.replace('leaf_', '') + '_bodies.rs'))
    args = ', '.join('%du64 as usize' % (v & 0xFFFFFFFFFFFFFFFF) for v in inputs[:h['args']])
    lines.append('fn main() { let r = std::panic::catch_unwind(|| bodies::%s(%s)); std::process::exit(if r.is_err() { 1 } else { 0 }); }' % (h['body'], args))
    open(os.path.join(wd, 'src', 'main.rs'), 'w').write('\n'.join(lines) + '\n')
    p = subprocess.run(['cargo', 'run', '--offline', '-q'], cwd=wd, capture_output=True, text=True, env=dict(os.environ, CARGO_NET_OFFLINE='true'))
    panicked = p.returncode == 1
    print(p.stderr[-1500:])
    shutil.rmtree(wd, ignore_errors=True)
    violated = (not panicked) if h.get('should_panic') else panicked
    if violated:
        print('the real code violates the obligation on inputs %s (%s)' % (inputs[:h['args']], h['what']))
        print('VIOLATION property=%s replay=%s' % (r.get('property'), path))
        return 1
    print('the real code satisfies the obligation on inputs %s: suspected false alarm of the verifier' % (inputs[:h['args']],))
    return 0
