// Kani leaf harnesses on the REAL src/token.rs (included by #[path], no repository change).
// Loop-free, full-domain symbolic inputs: complete proofs over all 2^64 keys (not a bounded stand-in).
// Each harness is the twin of a Verus obligation of unit `token` and supplies the concrete counterexample.
#[cfg(kani)]
mod kx_token {
    use crate::bodies;
    #[kani::proof] fn kx_token_roundtrip_key() { bodies::roundtrip_key(kani::any()); }
    #[kani::proof] fn kx_token_increment_version() { bodies::increment_version(kani::any()); }
    #[kani::proof] fn kx_token_increment_sub_id() {
        let k: usize = kani::any();
        kani::assume(k & 0xFFFF != 0xFFFF);
        kani::cover!(k & 0xFFFF == 0xFFFE, "boundary reachable");
        bodies::increment_sub_id(k);
    }
    #[kani::proof] #[kani::should_panic] fn kx_token_increment_sub_id_overflow_panics() {
        let k: usize = kani::any();
        kani::assume(k & 0xFFFF == 0xFFFF);
        bodies::increment_sub_id_overflow(k);
    }
    #[kani::proof] fn kx_token_same_source_as() { bodies::same_source_as(kani::any(), kani::any()); }
    #[kani::proof] fn kx_token_forget_and_id() { bodies::forget_and_id(kani::any()); }
    #[kani::proof] fn kx_token_new() { bodies::new(kani::any()); }
    #[kani::proof] fn kx_token_not_notify_key() { bodies::not_notify_key(kani::any()); }
}
