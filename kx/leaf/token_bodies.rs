// Postconditions of src/token.rs as plain Rust functions over concrete inputs. Used twice:
//  * by the Kani harnesses (token_harness.rs) with kani::any() inputs  -> complete proof over all 2^64 keys
//  * by the replay binary (replay/) with the concrete counterexample   -> re-execution on the real code
// `token` is the REAL file, included with #[path = ".../src/token.rs"].
pub mod bodies {
    use crate::token::TokenInner;
    pub fn key_of(t: TokenInner) -> usize { usize::from(t) }

    /// impl From<usize> for TokenInner / impl From<TokenInner> for usize: pack(unpack(k)) == k
    pub fn roundtrip_key(k: usize) {
        let t = TokenInner::from(k);
        assert!(usize::from(t) == k, "pack(unpack(k)) == k");
    }
    /// fn increment_version: same id, sub-id 0, generation + 1 modulo 2^16
    pub fn increment_version(k: usize) {
        let t = TokenInner::from(k);
        let k2 = key_of(t.increment_version());
        assert!(k2 >> 32 == k >> 32, "increment_version keeps the slot id");
        assert!(k2 & 0xFFFF == 0, "increment_version clears the sub-id");
        assert!((k2 >> 16) & 0xFFFF == (((k >> 16) & 0xFFFF) + 1) & 0xFFFF, "generation + 1 modulo 2^16");
    }
    /// fn increment_sub_id below the limit (precondition: sub-id != 0xFFFF)
    pub fn increment_sub_id(k: usize) {
        let t = TokenInner::from(k);
        assert!(key_of(t.increment_sub_id()) == k + 1, "next sub-id, same id and generation");
    }
    /// sub-id overflow must fail loudly (precondition: sub-id == 0xFFFF): this body must panic
    pub fn increment_sub_id_overflow(k: usize) {
        let t = TokenInner::from(k);
        let _ = t.increment_sub_id();
    }
    /// fn same_source_as <=> id and generation equal
    pub fn same_source_as(a: usize, b: usize) {
        let r = TokenInner::from(a).same_source_as(TokenInner::from(b));
        assert!(r == ((a >> 16) == (b >> 16)), "same_source_as <=> id and generation equal");
    }
    /// fn forget_sub_id / fn get_id
    pub fn forget_and_id(k: usize) {
        let t = TokenInner::from(k);
        assert!(key_of(t.forget_sub_id()) == k & !0xFFFF, "forget_sub_id clears exactly the sub-id");
        assert!(t.get_id() == k >> 32, "get_id is the slot index");
    }
    /// fn new
    pub fn new(id: usize) {
        match TokenInner::new(id) {
            Ok(t) => { assert!(id <= u32::MAX as usize, "new succeeds only below 2^32"); assert!(key_of(t) == id << 32, "fresh token: generation 0, sub-id 0"); }
            Err(()) => assert!(id > u32::MAX as usize, "new fails only for ids above 2^32-1"),
        }
    }
    /// never the poller's reserved notify key for a slot index below 2^32-1
    pub fn not_notify_key(k: usize) {
        let t = TokenInner::from(k);
        if t.get_id() < u32::MAX as usize { assert!(key_of(t) != usize::MAX, "never the reserved notify key for id < 2^32-1"); }
    }
}
