// Kani harnesses compiled INSIDE calloop (hook: src/lib.rs `#[cfg(kani)] mod verif_kani`), so that they reach
// crate-visible items of the real code. Loop-free and full-domain => complete proofs (not bounded stand-ins).
use crate::{PostAction, TokenFactory};
use crate::token::TokenInner;

fn any_post_action() -> PostAction {
    match kani::any::<u8>() % 4 {
        0 => PostAction::Continue,
        1 => PostAction::Reregister,
        2 => PostAction::Disable,
        _ => PostAction::Remove,
    }
}

/// twin of unit postaction: all 16 pairs of `|` and `|=`
#[kani::proof]
fn kx_postaction_pairs() {
    let a = any_post_action();
    let b = any_post_action();
    let expect = if a == b { a } else { PostAction::Reregister };
    assert!((a | b) == expect, "a | b is the common value when equal, Reregister otherwise");
    let mut c = a;
    c |= b;
    assert!(c == expect, "|= agrees with |");
}

/// twin of unit systok: the first three tokens of a factory are base, base+1, base+2 (same slot and generation,
/// consecutive sub-ids), and the registration token never changes
#[kani::proof]
fn kx_token_factory_chain() {
    let k: usize = kani::any();
    let slot = TokenInner::from(k);
    let mut tf = TokenFactory::new(slot);
    let base = k & !0xFFFF;
    let r0 = tf.registration_token();
    let t0 = tf.token();
    let t1 = tf.token();
    let t2 = tf.token();
    assert!(usize::from(t0.inner) == base, "first token: sub-id 0");
    assert!(usize::from(t1.inner) == base + 1, "second token: sub-id 1");
    assert!(usize::from(t2.inner) == base + 2, "third token: sub-id 2");
    assert!(t0.inner.same_source_as(slot) && t1.inner.same_source_as(slot) && t2.inner.same_source_as(slot), "sub-tokens belong to the source");
    assert!(tf.registration_token() == r0, "registration token is stable");
}

// ---------------------------------------------------------------------------------------------------------------
// BOUNDED twin of unit transient (C18): every sequence of up to 3 operations on a TransientSource whose children are
// instrumented mocks. The mock checks the child-side registration protocol (register only while unregistered,
// reregister/unregister only while registered, never dropped while registered); its register / unregister may fail
// nondeterministically. Uses only the public API of TransientSource, so it decides any body of those functions.
mod kx_transient {
    use crate::sources::transient::TransientSource;
    use crate::{EventSource, Poll, PostAction, Readiness, Token, TokenFactory};
    use crate::token::TokenInner;

    #[derive(Debug)]
    pub struct MockErr;
    impl std::fmt::Display for MockErr { fn fmt(&self, _: &mut std::fmt::Formatter<'_>) -> std::fmt::Result { Ok(()) } }
    impl std::error::Error for MockErr {}

    pub struct Mock { registered: bool, viol: *mut u8, calls: *mut u8 }
    impl Mock {
        fn flag(&self, code: u8) { unsafe { if *self.viol == 0 { *self.viol = code; } } }
    }
    impl Drop for Mock {
        fn drop(&mut self) { if self.registered { self.flag(4); } }
    }
    impl EventSource for Mock {
        type Event = ();
        type Metadata = ();
        type Ret = ();
        type Error = MockErr;
        fn process_events<F: FnMut((), &mut ())>(&mut self, _: Readiness, _: Token, mut cb: F) -> Result<PostAction, MockErr> {
            if !self.registered { self.flag(5); }
            unsafe { *self.calls += 1; }
            if kani::any() { return Err(MockErr); }
            cb((), &mut ());
            // (Disable is excluded: known finding F6a)
            let a: u8 = kani::any();
            Ok(match a % 3 { 0 => PostAction::Continue, 1 => PostAction::Reregister, _ => PostAction::Remove })
        }
        fn register(&mut self, _: &mut Poll, _: &mut TokenFactory) -> crate::Result<()> {
            if self.registered { self.flag(1); }
            if kani::any() { return Err(crate::Error::InvalidToken); }
            self.registered = true;
            Ok(())
        }
        fn reregister(&mut self, _: &mut Poll, _: &mut TokenFactory) -> crate::Result<()> {
            if !self.registered { self.flag(2); }
            if kani::any() { return Err(crate::Error::InvalidToken); }
            Ok(())
        }
        fn unregister(&mut self, _: &mut Poll) -> crate::Result<()> {
            if !self.registered { self.flag(3); }
            if kani::any() { return Err(crate::Error::InvalidToken); }
            self.registered = false;
            Ok(())
        }
    }

    fn transient_ops(n: usize) {
        let mut viol: u8 = 0;
        let mut calls: u8 = 0;
        let vp: *mut u8 = &mut viol;
        let cp: *mut u8 = &mut calls;
        // the Poll is only handed through to the children, which ignore it: never read
        let mut poll_mem = core::mem::MaybeUninit::<Poll>::uninit();
        let poll: &mut Poll = unsafe { &mut *poll_mem.as_mut_ptr() };
        let mut tf = TokenFactory::new(TokenInner::from(0usize));
        let mut ts = TransientSource::from(Mock { registered: false, viol: vp, calls: cp });
        let mut parent_registered = false;
        // the documented protocol: a re-registration is requested after each change (remove / replace / a child asking for
        // it) -- no second change before a parent register / reregister has gone through. (A second remove()/replace() after
        // a re-registration that FAILED half-way drops the old child while it is still registered; the property is read as
        // not covering that history: the change is still pending.)
        let mut pending = false;
        let mut step = 0;
        while step < n {
            let op: u8 = kani::any();
            kani::assume(op < 6);
            match op {
                0 => { kani::assume(!parent_registered); if ts.register(poll, &mut tf).is_ok() { parent_registered = true; pending = false; } }
                1 => { kani::assume(parent_registered); if ts.reregister(poll, &mut tf).is_ok() { pending = false; } }
                2 => { kani::assume(parent_registered); if ts.unregister(poll).is_ok() { parent_registered = false; } }
                3 => {
                    kani::assume(parent_registered);
                    let r = ts.process_events(Readiness::EMPTY, Token { inner: TokenInner::from(0usize) }, |_, _| {});
                    if let Ok(a) = r {
                        assert!(a == PostAction::Continue || a == PostAction::Reregister, "only Continue / Reregister reach the parent");
                        if a == PostAction::Reregister { pending = true; }
                    }
                }
                4 => { kani::assume(!pending); ts.remove(); pending = true; }
                _ => { kani::assume(!pending); ts.replace(Mock { registered: false, viol: vp, calls: cp }); pending = true; }
            }
            assert!(viol != 1, "child registered while registered");
            assert!(viol != 2, "child re-registered while unregistered");
            assert!(viol != 3, "child unregistered while unregistered");
            assert!(viol != 4, "child dropped while registered");
            assert!(viol != 5, "events forwarded to an unregistered child");
            step += 1;
        }
        kani::cover!(calls > 0 && !parent_registered, "a child processed events and the wrapper was unregistered again");
        // what is left of the wrapper is only dropped after the parent unregistered it
        core::mem::forget(ts);
    }

    /// quick tier: every sequence of 4 operations
    #[kani::proof]
    #[kani::unwind(6)]
    fn kx_transient_ops4() { transient_ops(4) }

    /// thorough tier: every sequence of 5 operations (long enough for: register, replace, re-registration refused for the
    /// replacement, a further change, re-registration -- defect F15)
    #[kani::proof]
    #[kani::unwind(7)]
    fn kx_transient_ops5() { transient_ops(5) }
}
