// Kani harnesses compiled INSIDE calloop (hook: src/lib.rs `#[cfg(kani)] mod verif_kani`), so that they reach
// crate-visible items of the real code. Loop-free and full-domain => complete proofs (not bounded stand-ins).
use crate::{PostAction, TokenFactory};
use crate::token::TokenInner;

fn any_post_action() -> PostAction {
    match kani::any::<u8>() % 4 {
        0 => PostAction::Continue,
        1 => PostAction::Reregister,
        2 => PostAction::Disable,
        _ => PostAction::Remove,
    }
}

/// twin of unit postaction: all 16 pairs of `|` and `|=`
#[kani::proof]
fn kx_postaction_pairs() {
    let a = any_post_action();
    let b = any_post_action();
    let expect = if a == b { a } else { PostAction::Reregister };
    assert!((a | b) == expect, "a | b is the common value when equal, Reregister otherwise");
    let mut c = a;
    c |= b;
    assert!(c == expect, "|= agrees with |");
}

/// twin of unit systok: the first three tokens of a factory are base, base+1, base+2 (same slot and generation,
/// consecutive sub-ids), and the registration token never changes
#[kani::proof]
fn kx_token_factory_chain() {
    let k: usize = kani::any();
    let slot = TokenInner::from(k);
    let mut tf = TokenFactory::new(slot);
    let base = k & !0xFFFF;
    let r0 = tf.registration_token();
    let t0 = tf.token();
    let t1 = tf.token();
    let t2 = tf.token();
    assert!(usize::from(t0.inner) == base, "first token: sub-id 0");
    assert!(usize::from(t1.inner) == base + 1, "second token: sub-id 1");
    assert!(usize::from(t2.inner) == base + 2, "third token: sub-id 2");
    assert!(t0.inner.same_source_as(slot) && t1.inner.same_source_as(slot) && t2.inner.same_source_as(slot), "sub-tokens belong to the source");
    assert!(tf.registration_token() == r0, "registration token is stable");
}
