// Kani harnesses compiled INSIDE calloop's `sys` module (hook: src/sys.rs `#[cfg(kani)] mod verif_kani`), so that they reach
// its private conversion functions. Loop-free and full-domain => complete proofs (not bounded stand-ins).
use super::*;

/// twin of unit systok / `cvt_interest`: for all 2^64 token keys and all four interests the kernel event carries exactly
/// the token's key and exactly the requested readable/writable bits
#[kani::proof]
fn kx_cvt_interest() {
    let k: usize = kani::any();
    let tok = Token { inner: TokenInner::from(k) };
    let interest = Interest { readable: kani::any(), writable: kani::any() };
    let ev = cvt_interest(interest, tok);
    assert!(ev.key == k, "the event key is the packed token");
    assert!(ev.readable == interest.readable, "readable interest is passed on");
    assert!(ev.writable == interest.writable, "writable interest is passed on");
}

/// twin of unit systok / `cvt_mode`: all six (mode, poller capability) combinations
#[kani::proof]
fn kx_cvt_mode() {
    let supports: bool = kani::any();
    let which: u8 = kani::any();
    let mode = match which % 3 { 0 => Mode::Edge, 1 => Mode::Level, _ => Mode::OneShot };
    let pm = cvt_mode(mode, supports);
    let expect = if !supports { PollMode::Oneshot } else { match which % 3 { 0 => PollMode::Edge, 1 => PollMode::Level, _ => PollMode::Oneshot } };
    assert!(pm == expect, "a poller without level/edge support always gets one-shot; otherwise the mode is kept");
}
