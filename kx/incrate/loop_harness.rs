// Kani harnesses compiled INSIDE calloop's loop_logic module (hook: src/loop_logic.rs `#[cfg(kani)] mod verif_kani`), so that
// they reach the private fields of EventIterator. BOUNDED twins (DESIGN 2.4): they explore every input up to the stated
// bound on the REAL function, whatever its body looks like -- a restructured body that the Verus overlay can no longer be
// spliced into (undecided there) is still decided here, and a failure comes with concrete inputs that `--replay`
// re-executes natively on the real code (`cargo kani playback`). A pass is bounded evidence only and is never counted as
// a discharged obligation.
use super::*;
use crate::sys::{PollEvent, Readiness, Token};
use crate::token::TokenInner;

fn any_event() -> PollEvent {
    PollEvent {
        readiness: Readiness { readable: kani::any(), writable: kani::any(), error: kani::any() },
        token: Token { inner: TokenInner::from(kani::any::<usize>()) },
    }
}

/// bounded twin of EventIterator::next: a batch of 3 events with arbitrary tokens, an arbitrary registration token
#[kani::proof]
#[kani::unwind(5)]
fn kx_event_iterator_next() {
    let evs = [any_event(), any_event(), any_event()];
    let reg = RegistrationToken { inner: TokenInner::from(kani::any::<usize>()).forget_sub_id() };
    let mut it = EventIterator { inner: evs.iter(), registration_token: reg };
    // reference: the events whose token has the same id and generation, in order
    let mut k = 0usize;
    let mut i = 0usize;
    while i < 3 {
        let mine = evs[i].token.inner.same_source_as(reg.inner);
        if mine {
            let got = it.next();
            assert!(got.is_some(), "an event of the source is not skipped");
            let (r, t) = got.unwrap();
            assert!(t == evs[i].token, "token as stored");
            assert!(r.readable == evs[i].readiness.readable && r.writable == evs[i].readiness.writable && r.error == evs[i].readiness.error, "readiness as stored");
            k += 1;
        }
        i += 1;
    }
    assert!(it.next().is_none(), "nothing of another source is yielded");
    // reachability (vacuity guard): batches with two events of the source and one foreign event in between are explored
    kani::cover!(k == 2 && !evs[1].token.inner.same_source_as(reg.inner), "two events of the source around a foreign one");
}
