"""Engine KX: Kani leaf harnesses on the real files (DESIGN 2.4). Complete (loop-free, full-domain) harnesses
count as discharged obligations; a failing harness yields a concrete counterexample that replay.py re-executes
on the real code."""
import json
import os
import re
import shutil
import subprocess
import time

KX = os.path.dirname(os.path.abspath(__file__))
REPO = os.environ.get('CALLOOP_REPO', '/repo')
GROUPS = json.load(open(os.path.join(KX, 'harnesses.json')))


def groups_for(prop, tier):
    out = []
    for gname, g in GROUPS.items():
        hs = [h for h in g['harnesses'] if prop in h['props']]
        if not hs:
            continue
        if g.get('tier', 'quick') == 'thorough' and tier != 'thorough':
            continue
        out.append((gname, g, hs))
    return out


def write_leaf_crate(gname, g, workdir):
    os.makedirs(os.path.join(workdir, 'src'), exist_ok=True)
    with open(os.path.join(workdir, 'Cargo.toml'), 'w') as fh:
        fh.write('[package]\nname = "kx_%s"\nversion = "0.1.0"\nedition = "2021"\n[dependencies]\n'
                 '[lints.rust]\nunexpected_cfgs = { level = "allow" }\n[workspace]\n' % gname)
    lines = ['#![allow(dead_code, unused)]']
    for f in g['files']:
        mod = os.path.basename(f)[:-3]
        lines.append('#[path = "%s"]\nmod %s;' % (os.path.join(REPO, f), mod))
    lines.append('include!("%s");' % os.path.join(KX, 'leaf', gname.replace('leaf_', '') + '_bodies.rs'))
    lines.append('include!("%s");' % os.path.join(KX, 'leaf', gname.replace('leaf_', '') + '_harness.rs'))
    with open(os.path.join(workdir, 'src', 'lib.rs'), 'w') as fh:
        fh.write('\n'.join(lines) + '\n')


def parse_kani(out, names):
    res = {}
    parts = re.split(r'Checking harness ', out)
    for part in parts[1:]:
        name = part.split('...')[0].strip().split('::')[-1]
        m = re.search(r'VERIFICATION:- (SUCCESSFUL|FAILED)', part)
        status = {'SUCCESSFUL': 'SUCCESS', 'FAILED': 'FAILURE'}.get(m.group(1) if m else '', 'UNKNOWN')
        failed = re.findall(r'Failed Checks: (.*)', part)
        nchecks = None
        mc = re.search(r'\*\* (\d+) of (\d+) failed', part)
        if mc:
            nchecks = int(mc.group(2))
        mt = re.search(r'Verification Time: ([0-9.]+)s', part)
        # only cover! statements of the harness count for the vacuity guard (std code has unreachable checks of its own)
        cover = re.findall(r'Check \d+: [^\n]*\.cover\.\d+\s*\n\s*- Status: (SATISFIED|UNSATISFIABLE|UNREACHABLE)', part)
        res[name] = {'status': status, 'failed_checks': failed, 'checks': nchecks, 'cbmc_s': float(mt.group(1)) if mt else None,
                     'covers': cover, 'output': part[-3000:]}
    return res


def playback(workdir, harness, env, extra=(), tests_out=None):
    """concrete counterexample bytes -> list of little-endian integers (one per kani::any()); the generated playback
    unit tests (one per failed check) are appended to tests_out: replay.py runs them natively on the real crate"""
    cmd = ['cargo', 'kani'] + list(extra) + ['--harness', harness, '-Z', 'concrete-playback', '--concrete-playback=print']
    p = subprocess.run(cmd, cwd=workdir, capture_output=True, text=True, env=env)
    if tests_out is not None:
        for m in re.finditer(r'```\n(.*?)```', p.stdout, re.S):
            if 'kani::concrete_playback_run' in m.group(1):
                tests_out.append(m.group(1))
    vals = []
    for m in re.finditer(r'//\s*(-?\d+)(?:ul|u64|usize)?\s*\n\s*vec!\[([0-9, ]*)\]', p.stdout):
        by = [int(x) for x in m.group(2).split(',') if x.strip()]
        vals.append(int.from_bytes(bytes(by), 'little'))
    if not vals:
        for m in re.finditer(r'vec!\[([0-9, ]+)\]', p.stdout):
            by = [int(x) for x in m.group(1).split(',') if x.strip()]
            if by:
                vals.append(int.from_bytes(bytes(by), 'little'))
    return vals


def run_for(prop, tier, workdir):
    out = {'harnesses': [], 'cmds': [], 'stubs': [], 'status': 'ok'}
    env = dict(os.environ, CARGO_NET_OFFLINE='true')
    for gname, g, hs in groups_for(prop, tier):
        wd = os.path.join(workdir, gname)
        shutil.rmtree(wd, ignore_errors=True)
        genv = env
        if g['kind'] == 'incrate':
            # compiled inside the real crate through the cfg(kani) hook in src/lib.rs
            os.makedirs(wd, exist_ok=True)
            hook_file = g.get('hook_file', 'src/lib.rs')
            if 'verif_kani' not in open(os.path.join(REPO, hook_file)).read():
                out['status'] = 'undecided'
                out['reason'] = 'cfg(kani) hook missing from %s' % hook_file
                continue
            genv = dict(env, CALLOOP_VERIF_DIR=os.path.dirname(KX), CARGO_TARGET_DIR=os.path.join(wd, 'target'))
            cmd = ['cargo', 'kani', '-p', 'calloop'] + sum((['--harness', h['name']] for h in hs), [])
            cwd = REPO
        else:
            write_leaf_crate(gname, g, wd)
            cmd = ['cargo', 'kani'] + sum((['--harness', h['name']] for h in hs), [])
            cwd = wd
        t0 = time.time()
        try:
            p = subprocess.run(cmd, cwd=cwd, capture_output=True, text=True, env=genv, timeout=int(os.environ.get('KX_TIMEOUT', '600')))
            txt = p.stdout + '\n' + p.stderr
        except subprocess.TimeoutExpired:
            out['status'] = 'undecided'
            out['reason'] = 'kani timed out on %s' % gname
            continue
        wall = round(time.time() - t0, 1)
        out['cmds'].append('cd <build>/kani/%s && CARGO_NET_OFFLINE=true %s' % (gname, ' '.join(cmd)))
        parsed = parse_kani(txt, [h['name'] for h in hs])
        if not parsed:
            out['status'] = 'undecided'
            out['reason'] = 'kani produced no harness results for %s: %s' % (gname, txt[-600:])
            continue
        for h in hs:
            r = parsed.get(h['name'])
            rec = dict(h)
            rec['group'] = gname
            rec['wall_s'] = wall
            if r is None:
                rec['status'] = 'MISSING'
            else:
                rec.update({k: r[k] for k in ('status', 'failed_checks', 'checks', 'cbmc_s', 'output')})
                if 'UNSATISFIABLE' in r['covers'] or 'UNREACHABLE' in r['covers']:
                    rec['status'] = 'VACUOUS'   # an assumption excludes everything: never counted
                if rec['status'] == 'FAILURE' and r['failed_checks'] and all('unwinding assertion' in c for c in r['failed_checks']):
                    # only the unwinding bound was exceeded (e.g. a body that now loops more often): the bound of this
                    # harness does not cover the code any more -- undecided, never an alarm
                    rec['status'] = 'UNWIND-BOUND-EXCEEDED'
                if rec['status'] == 'FAILURE':
                    tests = []
                    rec['counterexample'] = playback(cwd, h['name'], genv, ['-p', 'calloop'] if g['kind'] == 'incrate' else [], tests) or None
                    rec['playback_tests'] = tests[:4]
                    rec['hook_file'] = g.get('hook_file', 'src/lib.rs')
            out['harnesses'].append(rec)
        shutil.rmtree(os.path.join(wd, 'target'), ignore_errors=True)
        if g['kind'] == 'incrate':
            out['stubs'].append('in-crate Kani harnesses compiled through the cfg(kani) hook in %s (no stubs)' % g.get('hook_file', 'src/lib.rs'))
    return out
